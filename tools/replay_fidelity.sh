#!/bin/bash
# replay-fidelity pass: for each seeded change, run the check and count replay verification outcomes. Writes nothing under /verif/seeded.
export GOFLAGS=-mod=mod GOPROXY=off GOSUMDB=off GOTOOLCHAIN=local
cd /verif
for d in seeded/*/; do
  id=$(basename $d)
  echo "$id" | grep -Eq "^($1)" || continue
  prop=$(python3 -c "import json;m=json.load(open('$d/meta.json'));print(m.get('check_with') or m['property'])")
  wt=/var/tmp/fid.$$
  git -C /repo worktree add -q --detach $wt HEAD || exit 2
  git -C $wt apply $PWD/$d/patch.diff 2>/dev/null || { echo "$id: no apply"; git -C /repo worktree remove --force $wt; continue; }
  out=$(VERIF_MAXVIOL=4 VERIF_NO_MINIMISE=1 VERIF_REPO=$wt ./check $prop quick 2>&1); rc=$?
  git -C /repo worktree remove --force $wt
  ok=$(echo "$out" | grep -c "replay verified in a fresh process")
  other=$(echo "$out" | grep -c "another signature")
  none=$(echo "$out" | grep -ciE "did not reproduce")
  echo "$id: check=$prop exit=$rc verified=$ok other=$other none=$none"
done
