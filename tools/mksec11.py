#!/usr/bin/env python3
"""Rewrites the table of DESIGN.md section 11 from seeded/*/meta.json (keeps the narrative around it)."""
import subprocess,re,sys
p='/verif/DESIGN.md'
s=open(p).read()
tab=subprocess.run(['python3','/verif/tools/mkseeded_table.py'],capture_output=True,text=True).stdout.strip()
i=s.index('| seeded change | breaks | what it is / what it needs | result |')
# the table ends at the first line after i that does not start with '|'
lines=s[i:].split('\n')
n=0
while n<len(lines) and lines[n].startswith('|'):
    n+=1
end=i+len('\n'.join(lines[:n]))
s=s[:i]+tab+s[end:]
open(p,'w').write(s)
print('section 11 table: %d rows'%(tab.count('\n')-1))
