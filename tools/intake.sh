#!/bin/bash
# usage: intake.sh <outdir> <seeded-id> <property-to-check>
# Parses demo_path.txt heuristically, confirms the mutation in a scratch worktree, then runs the property's check against it.
out=$1; sid=$2; prop=$3
demo=$(ls $out/*_test.go | head -1)
rel=$(grep -oE '[A-Za-z0-9_./-]+_test\.go' $out/demo_path.txt | grep / | head -1)
[ -z "$rel" ] && rel=$(basename $demo)
re=$(grep -oE "\-run[ =]+['\"]?[A-Za-z0-9_|^$.()]+" $out/demo_path.txt | head -1 | sed -E "s/-run[ =]+['\"]?//")
mod=v2; case "$rel" in v2/*) mod=v2;; cmd/*) mod=cmd;; *) mod=.;; esac
if [ "$mod" = v2 ]; then pkg=$(dirname ${rel#v2/}); else pkg=$(dirname $rel); fi
[ "$pkg" = "." ] && pkg=.
echo "intake: demo=$rel module=$mod pkg=$pkg run=$re"
# several demo files? copy all of them next to the first
/verif/tools/confirm_mutation.sh $sid $prop $out $rel $pkg "$re" $mod 2>&1 | grep -E "CONFIRMED|rc=|WITHOUT|apply"
/verif/tools/try_patch.sh $out/patch.diff $prop 2>&1 | grep -E "signature|^C[0-9]+ quick|try_patch|apply|replay verified|WARNING: replay" | cut -c1-220 | head -8
