#!/bin/bash
# Applies every seeded change in turn to a scratch worktree of /repo HEAD, runs the check of the property it breaks (quick tier),
# records the outcome in seeded/<id>/detected.txt and meta.json, and removes the worktree.
cd /verif
for d in seeded/*/; do
  id=$(basename $d)
  [ -n "${SWEEP_ONLY:-}" ] && ! echo "$id" | grep -Eq "^(${SWEEP_ONLY})$" && continue
  prop=$(python3 -c "import json;m=json.load(open('$d/meta.json'));print(m.get('check_with') or m['property'])")
  checks=${SWEEP_CHECKS:-$prop}
  wt=/var/tmp/sweep.$$
  git -C /repo worktree add -q --detach $wt HEAD || exit 2
  if ! git -C $wt apply $PWD/$d/patch.diff 2>/dev/null; then echo "$id: patch no longer applies"; echo "patch no longer applies to HEAD" > $d/detected.txt; git -C /repo worktree remove --force $wt; continue; fi
  out=$(VERIF_MAXVIOL=${VERIF_MAXVIOL:-2} VERIF_NO_MINIMISE=${SWEEP_NO_MINIMISE:-} VERIF_REPO=$wt ./check $prop quick 2>&1); rc=$?
  hits=0; [ $rc -eq 1 ] && hits=1
  for extra in ${SWEEP_EXTRA_SEEDS:-}; do
    VERIF_SEED=$extra VERIF_NO_REPLAY_VERIFY=1 VERIF_REPO=$wt ./check $prop quick >/dev/null 2>&1; [ $? -eq 1 ] && hits=$((hits+1))
  done
  git -C /repo worktree remove --force $wt
  sigs=$(echo "$out" | grep "signature:" | sed 's/.*signature: //' | sort -u | tr '\n' ' ')
  echo "$id: check=$prop exit=$rc hits=$hits sigs=$sigs"
  { echo "check: ./check $prop quick (VERIF_SEED=${VERIF_SEED:-1})"; echo "exit: $rc"; echo "signatures: $sigs"; echo "$out" | grep -E "^C[0-9]+ quick"; } > $d/detected.txt
  python3 - "$d" "$prop" "$rc" "$sigs" <<'PY'
import json,sys
d,prop,rc,sigs=sys.argv[1:5]
m=json.load(open(d+'/meta.json'))
m['detected_by']={'check':prop,'tier':'quick','exit':int(rc),'signatures':sigs.split()} if int(rc)==1 else {'check':prop,'tier':'quick','exit':int(rc),'signatures':[], 'note':'NOT detected'}
json.dump(m,open(d+'/meta.json','w'),indent=1)
PY
done
