#!/usr/bin/env python3
"""Prints the section-11 table of DESIGN.md from seeded/*/meta.json and notes."""
import json, glob, os, re
rows=[]
for d in sorted(glob.glob('/verif/seeded/*/')):
    m=json.load(open(d+'meta.json'))
    sid=m['id']
    what=m.get('summary','')
    det=m.get('detected_by',{})
    if isinstance(det,dict) and det.get('exit')==1:
        sigs=det['signatures']
        shown=', '.join('`%s`'%s for s in sigs[:3])+(' (+%d more)'%(len(sigs)-3) if len(sigs)>3 else '')
        res='**caught** by `./check %s quick`: %s'%(det['check'],shown)
    else:
        res='**not caught** - '+m.get('miss_reason','see notes')
    rows.append('| %s | %s | %s | %s |'%(sid,m['property']+(' (-> %s)'%m['check_with'] if m.get('check_with') else ''),what,res))
print('| seeded change | breaks | what it is / what it needs | result |')
print('|---|---|---|---|')
print('\n'.join(rows))
