#!/bin/bash
# usage: tools/seedsweep.sh <first> <last> [tier]  -- runs every check under VERIF_SEED=first..last; prints only lines that are not clean passes
cd "$(dirname "$0")/.." || exit 2
tier=${3:-quick}
for seed in $(seq $1 $2); do
  echo "== seed $seed"
  VERIF_SEED=$seed tools/runall.sh $tier 2>&1 | grep -vE "exit=0\] C[0-9]+ $tier" | cut -c1-300
done
