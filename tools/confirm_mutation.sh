#!/bin/bash
# usage: confirm_mutation.sh <seeded-id> <property> <outdir> <demo-rel-path> <pkg-dir-rel-to-module> <run-regex> [module-dir=v2]
# DEMO_FLAGS=-race for a demonstration that only fails under the race detector
# Confirms in a scratch worktree of /repo: suite passes with the change, demo fails with it and passes without.
# On success stores /verif/seeded/<seeded-id>/{patch.diff,demo file,meta.json,notes.md}.
set -u
sid=$1; prop=$2; out=$3; demorel=$4; pkg=$5; re=$6; mod=${7:-v2}
export GOFLAGS=-mod=mod GOPROXY=off GOSUMDB=off GOTOOLCHAIN=local
wt=/tmp/confirm-$sid
git -C /repo worktree add -q --detach "$wt" HEAD || exit 2
trap 'git -C /repo worktree remove --force "$wt" 2>/dev/null' EXIT
demofile=$(ls "$out"/*_test.go "$out"/*.go 2>/dev/null | head -1)
[ -f "$out/$(basename $demorel)" ] && demofile="$out/$(basename $demorel)"   # the file demo_path.txt names, if it is there
cp "$demofile" "$wt/$demorel"
extra=""
if [ -n "${ALLDEMOS:-}" ]; then   # a demonstration in several files of one package
  for f in "$out"/*_test.go; do [ "$f" = "$demofile" ] || { cp "$f" "$wt/$(dirname $demorel)/"; extra="$extra $(dirname $demorel)/$(basename $f)"; }; done
fi
cd "$wt/$mod" || exit 2
base=$(go test ${DEMO_FLAGS:-} -count=1 -run "$re" ./$pkg 2>&1 | tail -3); base_rc=$?
echo "demo WITHOUT change: $base"
go test ${DEMO_FLAGS:-} -count=1 -run "$re" ./$pkg >/dev/null 2>&1; rc_without=$?
git -C "$wt" apply "$out/patch.diff" || { echo "patch does not apply to HEAD"; exit 3; }
go test ${DEMO_FLAGS:-} -count=1 -run "$re" ./$pkg >/tmp/confirm-$sid.log 2>&1; rc_with=$?
echo "demo WITH change: rc=$rc_with"; tail -5 /tmp/confirm-$sid.log
rm -f "$wt/$demorel"; for f in $extra; do rm -f "$wt/$f"; done
(go build ./... && go test -count=1 ./... ) >/tmp/confirm-$sid.suite 2>&1; rc_suite=$?
echo "suite WITH change: rc=$rc_suite"; grep -v 'no test files' /tmp/confirm-$sid.suite | tail -8
if [ $rc_without -eq 0 ] && [ $rc_with -ne 0 ] && [ $rc_suite -eq 0 ]; then
  mkdir -p /verif/seeded/$sid
  cp "$out/patch.diff" /verif/seeded/$sid/patch.diff
  cp "$demofile" /verif/seeded/$sid/
  for f in $extra; do cp "$out/$(basename $f)" /verif/seeded/$sid/; done
  [ -f "$out/notes.md" ] && cp "$out/notes.md" /verif/seeded/$sid/notes.md
  cat > /verif/seeded/$sid/meta.json <<EOM
{"id": "$sid", "property": "$prop", "base_commit": "$(git -C /repo log --format=%h -1)",
 "demo": {"place_at": "$demorel", "module_dir": "$mod", "run": "go test ${DEMO_FLAGS:-} -count=1 -run '$re' ./$pkg"},
 "confirmed": {"suite_passes_with_change": true, "demo_fails_with_change": true, "demo_passes_without_change": true,
               "how": "tools/confirm_mutation.sh in a scratch worktree of /repo (removed afterwards)"},
 "needs": "see notes.md", "detected_by": "PENDING"}
EOM
  echo "CONFIRMED -> /verif/seeded/$sid"
else
  echo "NOT CONFIRMED (without=$rc_without with=$rc_with suite=$rc_suite)"; exit 1
fi
