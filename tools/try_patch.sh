#!/bin/bash
# usage: try_patch.sh <patch.diff> <prop> [tier]
# Applies the patch to a scratch worktree of /repo's HEAD (never to /repo itself, so that background
# runs are not disturbed), runs the check against it with VERIF_REPO, removes the worktree.
patch=$(readlink -f "$1"); prop=$2; tier=${3:-quick}
wt=/var/tmp/trypatch.$$
git -C /repo worktree add -q --detach "$wt" HEAD || exit 2
trap 'git -C /repo worktree remove --force "$wt" 2>/dev/null' EXIT
git -C "$wt" apply "$patch" || { echo "try_patch: patch does not apply"; exit 3; }
cd "$(dirname "$0")/.." && VERIF_REPO="$wt" ./check "$prop" "$tier"
rc=$?
echo "try_patch: exit=$rc"
exit $rc
