#!/bin/bash
# usage: try_patch.sh <patch.diff> <prop> [tier]   -- applies patch to /repo, runs the check, always reverts.
patch=$1; prop=$2; tier=${3:-quick}
cd /repo || exit 2
if [ -n "$(git status --porcelain)" ]; then echo "try_patch: /repo not clean"; exit 2; fi
git apply "$patch" || { echo "try_patch: patch does not apply"; exit 3; }
trap 'git -C /repo checkout -- . ; git -C /repo clean -fdq' EXIT
cd /verif && ./check "$prop" "$tier"
rc=$?
echo "try_patch: exit=$rc"
exit $rc
