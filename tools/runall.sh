#!/bin/bash
# usage: tools/runall.sh [quick|thorough]  -- runs every registered check, prints one summary line each; exit 1 if any check did not exit 0
tier=${1:-quick}; cd "$(dirname "$0")/.." || exit 2; rc=0
for p in C02 C03 C04 C05 C06 C08 C09 C12 C13 C14 C16 C20; do
  out=$(./check $p $tier 2>&1); e=$?
  echo "$out" | grep -E "^C[0-9]+ $tier|VIOLATION|WARNING: probe|INFRASTRUCTURE" | sed "s/^/[$p exit=$e] /"
  [ $e -ne 0 ] && rc=1
done
exit $rc
