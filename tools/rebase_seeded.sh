#!/bin/bash
# Re-bases seeded patches that no longer apply to /repo HEAD (after fix: commits touched the same lines):
# tries `git apply --3way` in a scratch worktree; on success stores the refreshed diff as patch.diff
# (the original is kept as patch.orig.diff). Lists the ones that need porting by hand.
cd /verif
wt=/var/tmp/rebase.$$
git -C /repo worktree add -q --detach $wt HEAD || exit 2
trap 'git -C /repo worktree remove --force $wt 2>/dev/null' EXIT
for d in seeded/*/; do
  id=$(basename $d)
  git -C $wt reset -q --hard; git -C $wt clean -fdq
  if git -C $wt apply --check $PWD/$d/patch.diff 2>/dev/null; then continue; fi
  if git -C $wt apply --3way $PWD/$d/patch.diff >/dev/null 2>&1 && ! git -C $wt diff --name-only --diff-filter=U | grep -q .; then
    git -C $wt reset -q
    [ -f $d/patch.orig.diff ] || cp $d/patch.diff $d/patch.orig.diff
    git -C $wt diff > $d/patch.diff
    echo "$id: rebased by 3-way merge"
  else
    echo "$id: NEEDS MANUAL PORT"
  fi
done
