#!/usr/bin/env python3
"""Regenerates /verif/MANIFEST.json from the table below and validates it against the schema."""
import json, os, sys

HERE = os.path.dirname(os.path.dirname(os.path.abspath(__file__)))

TRUST = ("reference codec and reference map model written from the CAR specifications and the option documentation; "
         "go-cid / go-multihash; the scratch-copy type substitution (sync.*Mutex -> sim.*, os.File/os.OpenFile -> sim.*) "
         "preserves behaviour when no fault/scheduler is installed")

CHECKS = {
 "C04": dict(engine="session", cat="exploration", ref="4/C04",
   technique="deterministic simulation: seeded + exhaustive-short operation histories on the real stores over a simulated disk, checked step by step against a reference map model",
   text="Every API result of every generated history equals the reference model's (sets of permitted answers where the documentation is silent); after close the simulated disk's mutation log must stay frozen. Exhaustive for histories of length <=3 (quick) / <=4 (thorough) over a collision alphabet under 32 option sets, sampled beyond. Exploration, not proof: histories are sampled."),
 "C05": dict(engine="session", cat="exploration", ref="4/C05",
   technique="deterministic simulation: seeded put histories on four writers over a simulated disk; finalized image decoded by an independent reference codec, byte-exact payload and index-record comparison, then the library's Inspect(true), VerifyCar and a read-only store over the file that must return every stored block",
   text="The finalized image of every generated session must be byte-identical in its payload to the reference encoding of the model's sections, with exact header arithmetic and an index holding exactly one correct record per indexed section; sampled over options and writers."),
 "C12": dict(engine="session", cat="exploration", ref="4/C12",
   technique="deterministic simulation: restart (Discard/Finalize + reopen) as a generated operation on a simulated disk; byte-identity of the final file against the uninterrupted session; mutation-log check on refused reopen",
   text="Every generated placement of restarts in a writing session must end in a file byte-identical to the uninterrupted session's; every single-field mismatch on reopen must be refused with the simulated disk's mutation log untouched. Exhaustive for <=2 (quick) / <=3 (thorough) puts with <=2 restarts per gap under 10 option sets, sampled beyond."),
 "C20": dict(engine="session", cat="exploration", ref="4/C20",
   technique="deterministic simulation: histories of OnPut/Has/Put/Close on the deferred writer over a call-logging simulated stream / simulated file system; I/O-trace laziness invariant and byte-equality with a directly constructed writer after every step",
   text="After every step of every generated history: no stream write and no file before the first Put attempt; afterwards the target's bytes equal a direct writer's; callbacks fire per the registration-order model (also listeners registered from inside a listener); ErrClosed after Close. Operations include the linksystem door (BlockWriteOpener: opened and abandoned, opened and committed); the caller reuses its roots and option slices; the path may already name a longer file. Sampled histories over both targets and swarm-drawn options."),
 "C06": dict(engine="crash", cat="fault_enumeration", ref="4/C06",
   technique="deterministic simulation with crash injection: the session's write log on a simulated disk is cut at every write boundary and byte offset (torn last write), each crash image is reopened, queried, continued and finalized; oracle from acknowledged/invoked sets and the reference codec",
   text="For each generated session every crash point (all boundaries; all bytes in thorough, structural bytes in quick) is enumerated, so within a session the crash dimension is covered completely; sessions (options, block mix, prior history) are sampled. After a successful resume the session is continued; one put of the continuation and the continuation's Finalize are themselves cut (boundaries and torn writes: a second crash) and resumed again. Twelve signatures of one defect (D3: a crash between index and header under ZeroLengthSectionAsEOF with an index over 1 KiB) are listed as known findings."),
 "C16": dict(engine="fault", cat="fault_enumeration", ref="4/C16",
   technique="deterministic simulation with I/O fault injection: every write call of a session on the simulated disk/stream is failed once (0,err), short-written (j,err) at every byte and failed late (len,err), the client carries on (optionally retrying), and the final image is compared with the reference encoding of exactly the acknowledged blocks",
   text="For each generated session every single-fault plan is enumerated (plus sampled two-fault plans); sessions are sampled. The oracle is relaxed only as the property allows: after a fault the store may refuse to go on (then the archive clause is vacuous and counted separately), it may never report a failed block or return wrong bytes. Also: the outage that fails a write may fail the roll-back Truncate too; runs whose writes carry an already cancelled context; the deferred writer on a path. One known finding (D38: a failing EMPTY write together with a failing truncate leaves a complete section that a later reopen resurrects)."),
 "C02": dict(engine="medium", cat="fault_enumeration", ref="4/C02",
   technique="deterministic simulation with medium-fault injection: every truncation offset and bit flip of reference-built archives, delivered through simulated sources of every capability profile and chunking, read by each verifying reader (hash clause and truncation clause) and each scanning-only reader (SkipNext directly and over Reader.DataReader, Inspect(false), GenerateIndex, AllKeysChan of a store with a supplied index: truncation clause); harness-side rehash of every returned block",
   text="Per generated image the truncation dimension is enumerated completely and the bit-flip dimension completely in block data/digest bytes (all bits everywhere in thorough); large-section images (64 KiB - 2.5 MiB) get chunk-aligned cuts instead. Images, profiles and deliveries are sampled."),
 "C03": dict(engine="medium", cat="exploration", ref="4/C03",
   technique="deterministic simulation of the byte source: the same valid archive is handed to every index producer through every capability profile (plain stream .. ReadSeeker+ReaderAt, a pipe-like source whose Seek fails, a source the caller has already read from) and delivery plan; results compared with a reference scan",
   text="GetAll / GetFirst / ForEach of every produced index must equal the reference scan's offset sets for section CIDs and near-miss probes, identically for seekable and streamed sources. Sampled images and deliveries."),
 "C13": dict(engine="medium", cat="exploration", ref="4/C13",
   technique="deterministic simulation with medium-fault injection (boundary values in every located field, truncations, flips, extents) and differential oracle Inspect(true) vs verifying BlockReader scan, statistics recomputed from the scan",
   text="Accept/reject equivalence and statistics equality on every accepted container among the enumerated faults of each generated image, under ZeroLengthSectionAsEOF and size-limit variants. Sampled images."),
 "C14": dict(engine="medium", cat="exploration", ref="4/C14",
   technique="deterministic simulation of the byte source: all Next/SkipNext choice strings x capability profiles x delivery plans on reference-built archives; metadata checked against the reference section table and consumption observed at the source seam",
   text="Exhaustive over choice strings for images of <=6 blocks and over the seven simulated capability profiles plus bytes.Reader, *os.File and Reader.DataReader (fresh and pre-read); images and chunkings sampled. Results held by the caller (blocks, metadata pointers) are re-checked after the iteration. The high-water mark of the simulated source decides the 'never consumed past the payload' clause."),
 "C08": dict(engine="sched", cat="exploration", ref="4/C08",
   technique="deterministic simulation of the goroutine schedule: go-car's mutexes and file types substituted by simulator types, all tasks parked at every lock / simulated I/O / client yield inside a testing/synctest bubble, a seeded PRNG picks who runs (replayable pick list); recorded history checked for linearizability with porcupine; separate race-detector pass for the memory-level clause",
   text="Seeded search over interleavings of 2-16 client tasks on one shared store: no panic, no deadlock, linearizable history against the map+typestate model, each acknowledged block exactly once in the finalized file. The 'no data races' clause is decided by the Go race detector on the same programs under the runtime's own schedules (monitoring, not simulation) because memory accesses cannot be intercepted at any seam.",
   note="lock model with Go's writer preference (a waiting Lock excludes later RLocks); channel hand-offs of key listings are not scheduling points; race pass is sound but schedule-dependent; " + TRUST),
 "C09": dict(engine="medium", cat="exploration", ref="4/C09",
   technique="deterministic simulation with medium-fault injection (hostile length/offset/count fields, truncation, flips, extents, garbage, injected read errors) delivered through simulated sources to 21 parsing entry points; each case announced and run in a supervised child process; panic / process-death / non-termination / allocation-bound oracles; allocation site identified from the runtime's allocation profile",
   text="No panic, no process death, termination within a source-call budget, and TotalAlloc within limits + 1024*len + 1 MiB for every generated case under small configured limits; exact-maximum acceptance and max+1 rejection on valid files, per constructor and per buffering lookup, and refusal of everything when both limits are configured as 0. Known findings: allocation sites inside dependencies (go-cid CidFromReader D16, refmt CBOR strings D18) and storage.StorageCar.Get not applying the section limit (D23).",
   note="the constant of 'proportional to the input size' is chosen by the harness (1024/byte + 1 MiB); child processes run under ulimit -v 6 GiB; " + TRUST),
}

NA = {
 "C01": "pure function of (roots, blocks, writer kind, options): no schedule, fault, crash point or delivery in the statement; deciding it needs property-based round-trip testing, a different technique (DESIGN.md section 5)",
 "C07": "random access vs sequential scan of one immutable io.ReaderAt: no state, no fault, no delivery freedom for a simulator to own (DESIGN.md section 5)",
 "C10": "file-to-file transforms quantified over inputs and destination states only; two of three take os paths; no interleaving or fault in the statement (DESIGN.md section 5)",
 "C11": "index marshal/unmarshal canonical form is a pure function of a record multiset; its one nondeterminism source (Go map order) is not behind any seam (DESIGN.md section 5)",
 "C15": "DAG x selector x options -> bytes; the traversal is single-threaded and deterministic, nothing environmental to simulate (DESIGN.md section 5)",
 "C17": "behaviour of the car binary as a function of an input archive, against the real OS file system; no interleaving or fault in the statement (DESIGN.md section 5)",
 "C18": "pure CLI round trip of a directory tree; no schedule, fault or crash in the statement (DESIGN.md section 5)",
 "C19": "pure CLI closure property over inputs and flags; no schedule, fault or crash in the statement (DESIGN.md section 5)",
}

ENGINES = [
 dict(name="sched", path="harness/schedw/sched.go", serves_properties=["C08"], kind_free_text="seeded cooperative scheduler over substituted mutexes and simulated I/O inside a testing/synctest bubble (go1.26.8), porcupine linearizability check"),
 dict(name="race", path="harness/h/race.go", serves_properties=["C08"], kind_free_text="same client programs with real goroutines under the Go race detector (runtime monitoring; one clause of C08 only)"),
 dict(name="medium", path="harness/h/medium_image.go", serves_properties=["C02", "C03", "C13", "C14", "C09"], kind_free_text="reference-built archives, medium faults (truncation, bit flips, field boundary values, extents), simulated sources with capability profiles and adversarial delivery"),
 dict(name="crash", path="harness/h/crash.go", serves_properties=["C06"], kind_free_text="crash-point enumeration over the simulated disk's mutation log, restart, recovery and continuation oracles"),
 dict(name="fault", path="harness/h/fault.go", serves_properties=["C16"], kind_free_text="transient write-error / short-write injection at every write call and byte of a session, continuation oracle"),
 dict(name="session", path="harness/h/session.go", serves_properties=["C04", "C05", "C12", "C20"], kind_free_text="fault-free operation histories on real stores over the simulated disk, reference model + reference codec oracles"),
]

def main():
    props = [json.loads(l)["id"] for l in open(os.path.join(HERE, "properties.jsonl"))]
    checks = []
    for pid in props:
        if pid not in CHECKS:
            continue
        c = CHECKS[pid]
        checks.append({
            "property_id": pid,
            "quick_cmd": "./check %s quick" % pid,
            "thorough_cmd": "./check %s thorough" % pid,
            "evidence_file": "/verif/evidence/%s.json" % pid,
            "replay_cmd_template": "./check replay %s {path}" % pid,
            "engine": c["engine"],
            "level_claimed": {"category": c["cat"], "text": c["text"], "design_ref": "DESIGN.md section " + c["ref"]},
            "level_note": c.get("note", TRUST),
            "technique": c["technique"],
        })
    na = [{"property_id": p, "reason": NA[p]} for p in props if p in NA]
    missing = [p for p in props if p not in CHECKS and p not in NA]
    for p in missing:
        na.append({"property_id": p, "reason": "check not built yet in this tree (planned: DESIGN.md section 4)"})
    man = {
        "version": 1,
        "setup_cmd": "./check setup",
        "hooks": {
            "guard": "none - no hook is committed to /repo; checks substitute environment-boundary types in a scratch copy (DESIGN.md section 3.1)",
            "enable": "./check copies /repo/v2 (non-test .go, go.mod, go.sum) to $VERIF_SCRATCH/verif.<pid>, runs sim/cmd/rewrite (sync.Mutex/RWMutex -> sim.*, os.File/os.OpenFile -> sim.* in blockstore and storage/deferred), adds package verifbridge, builds harness with replace directives",
            "baseline_off_cmd": "export GOFLAGS=-mod=mod GOPROXY=off GOSUMDB=off; for m in . cmd v2; do (cd /repo/$m && go test -vet=off -count=1 ./...) || exit 1; done",
            "source_commits": [],
            "add_only": True,
        },
        "engines": ENGINES,
        "checks": checks,
        "not_applicable": na,
        "notes": "Technique family: deterministic simulation with fault injection. Exit codes: 0 held, 1 violation (VIOLATION line), 2 infrastructure. Known findings: /verif/known_findings.txt. Replays: /verif/replays/.",
    }
    out = os.path.join(HERE, "MANIFEST.json")
    json.dump(man, open(out, "w"), indent=1)
    try:
        import jsonschema
        jsonschema.validate(man, json.load(open("/root/.vp/MANIFEST.schema.json")))
        print("MANIFEST.json valid:", len(checks), "checks,", len(na), "not applicable")
    except ImportError:
        print("MANIFEST.json written (jsonschema not importable here; run with python3-vt to validate)")

if __name__ == "__main__":
    main()
