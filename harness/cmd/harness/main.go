package main

import (
	"os"

	"verif/harness/h"
)

func main() { os.Exit(h.Main()) }
