package h

import (
	"bytes"
	"context"
	"fmt"
	"io"
	"sort"
	"strings"
	"time"

	blocks "github.com/ipfs/go-block-format"
	"github.com/ipfs/go-cid"
	rootcar "github.com/ipld/go-car"
	carv2 "github.com/ipld/go-car/v2"
	"github.com/ipld/go-car/v2/blockstore"
	"github.com/ipld/go-car/v2/index"
	"github.com/ipld/go-car/v2/verifbridge"
	"verif/sim"
)

// C02: untrusted reads never yield corrupted or silently truncated content.

type retBlk struct {
	c    cid.Cid
	data []byte
}

type scanResult struct {
	constructErr error
	blocks       []retBlk
	endErr       error // nil only for loaders that finished cleanly; io.EOF = clean end of a Next loop
	clean        bool
	panicV       any
	core         *sim.SrcCore
}

// collector is the Store handed to the LoadCar functions.
type collector struct {
	out  *[]retBlk
	fast bool
}

func (c *collector) Put(_ context.Context, b blocks.Block) error {
	*c.out = append(*c.out, retBlk{b.Cid(), b.RawData()})
	return nil
}

type fastCollector struct{ collector }

func (c *fastCollector) PutMany(_ context.Context, bs []blocks.Block) error {
	for _, b := range bs {
		*c.out = append(*c.out, retBlk{b.Cid(), b.RawData()})
	}
	return nil
}

var verifyingReaders = []string{"v2br", "inspect", "root", "rootload", "rootloadfast", "v1", "v1load",
	// not a verifying reader, but a scanning one: BlockReader driven with SkipNext only. It is held to the
	// truncation clause (and to returning the right CID sequence of a valid archive), not to the hash clause.
	"v2skip",
	// likewise scanning but not verifying: inspection without hashing, and index generation
	"inspectfast", "genindex",
	// the key listing of a read-only store that was given its index by the caller (a detached index,
	// say) and therefore has not scanned the payload when it was opened: the listing is the scan
	"allkeys",
	// the documented way to iterate the payload of a Reader: NewBlockReader over Reader.DataReader(), skipping
	"v2skip-dr"}

func readerNeedsReaderAt(reader string) bool {
	return reader == "inspect" || reader == "inspectfast" || reader == "allkeys" || reader == "v2skip-dr"
}

// scanSuppliedIndex is the index of the valid image under test, handed to the "allkeys" reader.
var scanSuppliedIndex index.Index

// scanOnly readers are held to the truncation clause only; countless ones hand back no blocks.
func scanOnly(reader string) bool {
	return reader == "v2skip" || reader == "inspectfast" || reader == "genindex" || reader == "allkeys" || reader == "v2skip-dr"
}
func countless(reader string) bool {
	return reader == "inspect" || reader == "inspectfast" || reader == "genindex" || reader == "allkeys"
}

// scanWith runs one verifying reader over data.
func scanWith(reader string, data []byte, profile string, del sim.Delivery, opts ReadOpts) (res scanResult) {
	src, core := sim.NewSource(data, profile, del)
	core.Budget = srcBudget(len(data)) * 4
	res.core = core
	res.panicV = safeCall(func() {
		switch reader {
		case "v2br":
			br, err := carv2.NewBlockReader(src.(io.Reader), opts.Options()...)
			if err != nil {
				res.constructErr = err
				return
			}
			for {
				b, err := br.Next()
				if err != nil {
					res.endErr = err
					res.clean = err == io.EOF
					return
				}
				res.blocks = append(res.blocks, retBlk{b.Cid(), b.RawData()})
			}
		case "v2skip", "v2skip-dr":
			var from io.Reader
			if reader == "v2skip-dr" {
				rd, err := carv2.NewReader(src.(io.ReaderAt), opts.Options()...)
				if err != nil {
					res.constructErr = err
					return
				}
				if from, err = rd.DataReader(); err != nil {
					res.constructErr = err
					return
				}
			} else {
				from = src.(io.Reader)
			}
			br, err := carv2.NewBlockReader(from, opts.Options()...)
			if err != nil {
				res.constructErr = err
				return
			}
			for {
				md, err := br.SkipNext()
				if err != nil {
					res.endErr = err
					res.clean = err == io.EOF
					return
				}
				res.blocks = append(res.blocks, retBlk{md.Cid, nil})
			}
		case "inspect", "inspectfast":
			rd, err := carv2.NewReader(src.(io.ReaderAt), opts.Options()...)
			if err != nil {
				res.constructErr = err
				return
			}
			_, err = rd.Inspect(reader == "inspect")
			res.endErr = err
			res.clean = err == nil
		case "genindex":
			_, err := carv2.GenerateIndex(src.(io.Reader), opts.Options()...)
			res.endErr = err
			res.clean = err == nil
		case "allkeys":
			ro, err := blockstore.NewReadOnly(src.(io.ReaderAt), scanSuppliedIndex, opts.Options()...)
			if err != nil {
				res.constructErr = err
				return
			}
			var asyncErr error
			ctx, cancel := context.WithCancel(blockstore.WithAsyncErrorHandler(context.Background(), func(e error) {
				if asyncErr == nil {
					asyncErr = e
				}
			}))
			defer cancel()
			ch, err := ro.AllKeysChan(ctx)
			if err != nil {
				res.endErr = err
				return
			}
			n := 0
			for range ch {
				if n++; n > len(data)+16 {
					panic(sim.BudgetExceeded{Calls: n})
				}
			}
			res.endErr = asyncErr
			res.clean = asyncErr == nil
		case "root":
			cr, err := rootcar.NewCarReader(src.(io.Reader))
			if err != nil {
				res.constructErr = err
				return
			}
			for {
				b, err := cr.Next()
				if err != nil {
					res.endErr = err
					res.clean = err == io.EOF
					return
				}
				res.blocks = append(res.blocks, retBlk{b.Cid(), b.RawData()})
			}
		case "rootload", "rootloadfast":
			var st rootcar.Store = &collector{out: &res.blocks}
			if reader == "rootloadfast" {
				st = &fastCollector{collector{out: &res.blocks}}
			}
			_, err := rootcar.LoadCar(context.Background(), st, src.(io.Reader))
			res.endErr = err
			res.clean = err == nil
		case "v1":
			cr, err := verifbridge.NewCarReaderWithoutDefaults(src.(io.Reader), opts.ZeroEOF, orDefault(opts.MaxHeader, 32<<20), orDefault(opts.MaxSection, 8<<20))
			if err != nil {
				res.constructErr = err
				return
			}
			for {
				b, err := cr.Next()
				if err != nil {
					res.endErr = err
					res.clean = err == io.EOF
					return
				}
				res.blocks = append(res.blocks, retBlk{b.Cid(), b.RawData()})
			}
		case "v1load":
			_, err := verifbridge.LoadCar(&fastCollector{collector{out: &res.blocks}}, src.(io.Reader))
			res.endErr = err
			res.clean = err == nil
		default:
			panic(&InfraError{"unknown reader " + reader})
		}
	})
	return
}

func orDefault(v, d uint64) uint64 {
	if v == 0 {
		return d
	}
	return v
}

// judgeC02 applies the oracle to one reader run over one mutated medium.
func judgeC02(l *Layout, m Mut, reader string, res scanResult) *Violation {
	if res.panicV != nil {
		if be, ok := res.panicV.(sim.BudgetExceeded); ok {
			return viol("medium/nontermination/"+reader, "%s made no progress on %s: %v", reader, m, be)
		}
		return viol("medium/panic/"+reader, "%s panicked on %s: %v", reader, m, res.panicV)
	}
	// (1) whatever was returned hashes to its CID
	for i, b := range res.blocks {
		if scanOnly(reader) {
			break // SkipNext returns metadata only
		}
		if !Honest(b.c, b.data) {
			return viol("medium/corrupt-block-returned/"+reader, "%s returned block #%d %s whose %d bytes do not hash to it (after %s)", reader, i, b.c, len(b.data), m)
		}
	}
	reported := res.constructErr != nil || !res.clean
	switch m.Kind {
	case "none":
		if countless(reader) {
			if reported {
				return viol("medium/valid-rejected/"+reader, "%s rejected a valid archive: %v %v", reader, res.constructErr, res.endErr)
			}
			break
		}
		if res.constructErr != nil {
			break // e.g. the CARv1 readers refuse an archive without roots
		}
		if !res.clean {
			if strings.Contains(fmt.Sprint(res.endErr), "no roots") {
				break
			}
			return viol("medium/valid-rejected/"+reader, "%s failed on a valid archive after %d blocks: %v", reader, len(res.blocks), res.endErr)
		}
		if len(res.blocks) != len(l.Payload.Sections) {
			return viol("medium/wrong-block-count/"+reader+"@valid", "%s returned %d blocks of a valid archive with %d", reader, len(res.blocks), len(l.Payload.Sections))
		}
		for i, b := range res.blocks {
			if !b.c.Equals(l.Payload.Sections[i].Cid) {
				return viol("medium/wrong-block/"+reader+"@valid", "%s returned %s as block #%d of a valid archive, want %s", reader, b.c, i, l.Payload.Sections[i].Cid)
			}
		}
	case "flip":
		region, _ := l.Region(m.Off)
		if !scanOnly(reader) && (region == "sec-data" || region == "sec-digest") {
			if !reported {
				return viol("medium/corruption-unreported/"+reader+"@"+region, "%s ended cleanly (%d blocks) although bit %d of byte %d (%s) was flipped", reader, len(res.blocks), m.Bit, m.Off, region)
			}
		}
	case "trunc":
		region, sec := l.Region(m.Off)
		boundary, before := l.SectionBoundary(m.Off)
		switch {
		case boundary:
			// exactly the blocks before the cut (readers that need roots may refuse the file altogether)
			loader := reader == "rootload" || reader == "rootloadfast" || reader == "v1load"
			// (a loader's error may be its constructor's, e.g. "no roots": only a clean run is comparable;
			// the batching loaders hand nothing over unless they end cleanly)
			if res.constructErr == nil && !countless(reader) && (!loader || res.clean) {
				if len(res.blocks) != before {
					return viol("medium/wrong-block-count/"+reader+"@boundary", "%s returned %d blocks for a cut exactly before section %d", reader, len(res.blocks), before)
				}
			}
		case region == "pragma" || region == "v2header" || region == "header" || (len(region) > 4 && region[:4] == "sec-"):
			if !reported {
				loc := region
				if sec >= 0 {
					s := l.Payload.Sections[sec]
					if m.Off-l.DataOffset-s.Off == int64(s.LenSize) {
						loc = "after-length-prefix"
					}
				}
				return viol("medium/silent-truncation/"+reader+"@"+loc, "%s reported a clean end (%d blocks) for an archive cut at byte %d, inside %s", reader, len(res.blocks), m.Off, region)
			}
		}
	}
	return nil
}

func profilesFor(reader string) []string {
	if readerNeedsReaderAt(reader) {
		return []string{sim.ProfRSA, sim.ProfA, sim.ProfRSAB}
	}
	return readerProfiles
}

// RunC02 executes one case or enumerates truncations and flips of one image.
func RunC02(t *Trace, st *Stats) *Violation {
	ms := t.Medium
	l := BuildImage(ms.Image)
	opts := ms.Opts
	if ms.Image.NullPad > 0 {
		opts.ZeroEOF = true
	}
	for _, b := range ms.Image.Blocks {
		if b.Size > 8<<20-128 {
			opts.MaxSection = 32 << 20 // the caller raised the limit to read its large blocks
		}
	}
	if !ms.All {
		st.Evals++
		m := Mut{Kind: "none"}
		if len(ms.Muts) > 0 {
			m = ms.Muts[0]
		}
		data := l.ApplyMuts(ms.Muts)
		scanSuppliedIndex = suppliedIndexFor(l, opts)
		if !applicableReader(l, ms.Reader, opts) {
			return nil
		}
		return judgeC02(l, m, ms.Reader, scanWith(ms.Reader, data, ms.Profile, ms.Del, opts))
	}
	every := t.Extra != nil && t.Extra["every_bit"] == true
	r := RunRng(t.Seed, "C02", "medium-enum", t.Run)
	scanSuppliedIndex = suppliedIndexFor(l, opts)
	var first *Violation
	seen := map[string]bool{}
	n := int64(len(l.Image))
	var muts []Mut
	muts = append(muts, Mut{Kind: "none"}) // the valid image itself: every reader must return exactly its blocks
	big := n > 20000
	long := !big && n > 3000
	huge := n > 1<<20
	enormous := n > 6<<20
	manySec := len(l.Payload.Sections) > 500
	if manySec {
		// more sections than any batch size a loader uses (1000): a few cuts and flips are enough, the
		// point of the class is the valid image itself and cuts that leave more than a batch behind
		st.Probe("c02:many-sections-image")
		cuts := map[int64]bool{}
		for o := int64(4096); o < n; o += 4096 {
			cuts[o] = true
			cuts[o+1] = true
		}
		secs := l.Payload.Sections
		for _, i := range []int{0, 1, 999, 1000, 1001, len(secs) - 2, len(secs) - 1} {
			if i >= 0 && i < len(secs) {
				for _, d := range []int64{-1, 0, 1, int64(secs[i].LenSize)} {
					if o := l.DataOffset + secs[i].Off + d; o > 0 && o < n {
						cuts[o] = true
					}
				}
			}
		}
		var cl []int64
		for o := range cuts {
			cl = append(cl, o)
		}
		sort.Slice(cl, func(i, j int) bool { return cl[i] < cl[j] })
		for _, o := range cl {
			muts = append(muts, Mut{Kind: "trunc", Off: o})
		}
		for k := 0; k < 24; k++ {
			muts = append(muts, Mut{Kind: "flip", Off: int64(r.Intn(int(n))), Bit: r.Intn(8)})
		}
	} else if enormous {
		// a section beyond the default 8 MiB section limit, read with the limit raised: cut where a reader
		// that grows its buffer in large steps would be (multiples of 4 MiB of the section body), +-1
		st.Probe("c02:enormous-section-image")
		for _, sec := range l.Payload.Sections {
			body := l.DataOffset + sec.Off + int64(sec.LenSize)
			for k := int64(1); k<<22 < int64(sec.CidLen+sec.DataLen); k++ {
				for _, d := range []int64{-1, 0, 1} {
					muts = append(muts, Mut{Kind: "trunc", Off: body + k<<22 + d})
				}
			}
			muts = append(muts, Mut{Kind: "trunc", Off: body + 1}, Mut{Kind: "trunc", Off: body + int64(sec.CidLen)})
		}
		muts = append(muts, Mut{Kind: "trunc", Off: n - 1}, Mut{Kind: "flip", Off: n - 5, Bit: 3})
	} else if huge {
		// a section of several MiB: cut at multiples of 256 KiB counted from the start of the file, of
		// each section body and of its block data, +-1 (the step sizes a reader that grows its buffer
		// in chunks would use), plus a few bytes around the structure
		st.Probe("c02:huge-section-image")
		cuts := map[int64]bool{}
		add := func(o int64) {
			for _, d := range []int64{-1, 0, 1} {
				if o+d > 0 && o+d < n {
					cuts[o+d] = true
				}
			}
		}
		for _, sec := range l.Payload.Sections {
			body := l.DataOffset + sec.Off + int64(sec.LenSize)
			for o := int64(0); o < 40 && body-int64(sec.LenSize)+o < n; o++ {
				cuts[body-int64(sec.LenSize)+o] = true
			}
			for k := int64(1); k<<18 < int64(sec.CidLen+sec.DataLen); k++ {
				add(body + k<<18)
				cuts[body+int64(sec.CidLen)+k<<18] = true
			}
		}
		for k := int64(1); k<<18 < n; k++ {
			cuts[k<<18] = true
		}
		for o := int64(1); o < 60; o++ {
			cuts[o] = true
		}
		for o := n - 3; o < n; o++ {
			cuts[o] = true
		}
		var cl []int64
		for o := range cuts {
			cl = append(cl, o)
		}
		sort.Slice(cl, func(i, j int) bool { return cl[i] < cl[j] })
		for _, o := range cl {
			muts = append(muts, Mut{Kind: "trunc", Off: o})
		}
		for k := 0; k < 6; k++ {
			muts = append(muts, Mut{Kind: "flip", Off: int64(r.Intn(int(n))), Bit: r.Intn(8)})
		}
	} else if big {
		// a large section: cutting at every byte is out of reach, so cut where chunked or buffered
		// reading could plausibly go wrong: multiples of 4 KiB / 16 KiB counted from the start of the
		// file and from the start of each section body, +-1, plus every byte near structure
		st.Probe("c02:big-section-image")
		cuts := map[int64]bool{}
		add := func(o int64) {
			for _, d := range []int64{-1, 0, 1} {
				if o+d > 0 && o+d < n {
					cuts[o+d] = true
				}
			}
		}
		for _, sec := range l.Payload.Sections {
			body := l.DataOffset + sec.Off + int64(sec.LenSize)
			for o := int64(0); o < 80 && body-int64(sec.LenSize)+o < n; o++ {
				cuts[body-int64(sec.LenSize)+o] = true
			}
			for k := int64(1); k*4096 < int64(sec.CidLen+sec.DataLen); k++ {
				if k <= 4 || k%4 == 0 {
					add(body + k*4096)
					add(body + int64(sec.CidLen) + k*4096)
				}
			}
		}
		for k := int64(1); k*16384 < n; k++ {
			add(k * 16384)
		}
		for o := int64(0); o < 120 && o < n; o++ {
			cuts[o] = true
		}
		for o := n - 120; o < n; o++ {
			if o > 0 {
				cuts[o] = true
			}
		}
		var cl []int64
		for o := range cuts {
			cl = append(cl, o)
		}
		sort.Slice(cl, func(i, j int) bool { return cl[i] < cl[j] })
		for _, o := range cl {
			muts = append(muts, Mut{Kind: "trunc", Off: o})
		}
		for k := 0; k < 48; k++ {
			muts = append(muts, Mut{Kind: "flip", Off: int64(r.Intn(int(n))), Bit: r.Intn(8)})
		}
	} else if long {
		// many small sections, longer than any reader's buffer: cut at every section boundary +-1 and
		// at multiples of 512; flip sampled bits
		st.Probe("c02:long-image")
		cuts := map[int64]bool{}
		for _, sec := range l.Payload.Sections {
			for _, d := range []int64{-1, 0, 1, int64(sec.LenSize)} {
				if o := l.DataOffset + sec.Off + d; o > 0 && o < n {
					cuts[o] = true
				}
			}
		}
		for o := int64(512); o < n; o += 512 {
			cuts[o] = true
		}
		var cl []int64
		for o := range cuts {
			cl = append(cl, o)
		}
		sort.Slice(cl, func(i, j int) bool { return cl[i] < cl[j] })
		for _, o := range cl {
			muts = append(muts, Mut{Kind: "trunc", Off: o})
		}
		for k := 0; k < 200; k++ {
			muts = append(muts, Mut{Kind: "flip", Off: int64(r.Intn(int(n))), Bit: r.Intn(8)})
		}
	} else {
		for off := int64(0); off < n; off++ {
			muts = append(muts, Mut{Kind: "trunc", Off: off})
		}
		for off := int64(0); off < n; off++ {
			region, _ := l.Region(off)
			if every || region == "sec-data" || region == "sec-digest" {
				for b := 0; b < 8; b++ {
					muts = append(muts, Mut{Kind: "flip", Off: off, Bit: b})
				}
			} else {
				muts = append(muts, Mut{Kind: "flip", Off: off, Bit: r.Intn(8)})
			}
		}
	}
	dels := []sim.Delivery{{ErrAt: -1}, GenDelivery(r)}
	for _, m := range muts {
		var data []byte
		if m.Kind == "none" {
			data = l.Image
		} else {
			data = l.ApplyMuts([]Mut{m})
		}
		region, _ := l.Region(m.Off)
		for ri, reader := range verifyingReaders {
			if !applicableReader(l, reader, opts) {
				continue
			}
			profs := profilesFor(reader)
			// two (profile, delivery) pairs per reader and mutation, rotating over the profile list
			for k := 0; k < 2; k++ {
				prof := profs[(int(m.Off)+ri+k*3)%len(profs)]
				del := dels[k]
				st.Evals++
				st.Steps++
				res := scanWith(reader, data, prof, del, opts)
				v := judgeC02(l, m, reader, res)
				st.Fault(m.Kind, 1)
				st.Mark("c02", fmt.Sprint(ms.Image.V2, len(ms.Image.Blocks)), m.Kind, region, reader, prof, fmt.Sprint(res.clean, res.constructErr != nil, len(res.blocks)))
				if v == nil {
					continue
				}
				if seen[v.Sig] {
					continue
				}
				seen[v.Sig] = true
				pt := t.Clone()
				pt.Medium.All = false
				pt.Medium.Muts = []Mut{m}
				pt.Medium.Reader, pt.Medium.Profile, pt.Medium.Del = reader, prof, del
				if st.Report != nil {
					if st.Report(pt, v) {
						return first
					}
				} else if first == nil {
					first = v
				}
			}
		}
	}
	st.Sample(map[string]any{"image": ms.Image, "image_len": n, "mutations": len(muts), "readers": verifyingReaders})
	return first
}

// suppliedIndexFor builds, from the VALID image, the index a caller would hand to NewReadOnly.
func suppliedIndexFor(l *Layout, opts ReadOpts) index.Index {
	idx, err := carv2.GenerateIndex(bytes.NewReader(l.Image), opts.Options()...)
	if err != nil {
		return nil // "allkeys" is then skipped (applicableReader)
	}
	return idx
}

// applicableReader: the CARv1-only readers are run on CARv1 images only.
func applicableReader(l *Layout, reader string, opts ReadOpts) bool {
	if reader == "v1load" && opts.MaxSection > 8<<20 {
		return false // the internal loader has no option for the section limit
	}
	switch reader {
	case "allkeys":
		return scanSuppliedIndex != nil
	case "root", "rootload", "rootloadfast", "v1", "v1load":
		if l.Spec.V2 {
			return false
		}
		if l.Spec.NullPad > 0 && reader != "v1" {
			return false // these readers have no zero-length-section option
		}
	}
	return true
}

func GenC02(seed uint64, run int) *Trace {
	r := RunRng(seed, "C02", "medium", run)
	spec := GenImageSpec(r, 5)
	for i := range spec.Blocks {
		if sz := spec.Blocks[i].Size; sz > 70 && r.Chance(4, 5) {
			cl := MakeBlock(BlkSpec{Kind: spec.Blocks[i].Kind, Seed: 1, Size: 1}).Cid.ByteLen()
			if (sz+cl+1)%128 > 2 { // keep the varint-boundary sizes
				spec.Blocks[i].Size = r.Range(0, 70)
			}
		}
	}
	if r.Chance(1, 8) {
		// many small sections: longer than the 4 KiB buffers readers use
		spec.Blocks = spec.Blocks[:0]
		for i, n := 0, r.Range(70, 140); i < n; i++ {
			spec.Blocks = append(spec.Blocks, BlkSpec{Kind: Pick(r, []string{"raw", "cbor", "v0", "sha1"}), Seed: uint64(200 + i), Size: r.Range(0, 60)})
		}
		if len(spec.Roots) == 0 {
			spec.Roots = []BlkSpec{{Kind: "raw", Seed: 200, Size: 0}}
		}
		spec.NullPad = 0
	} else if r.Chance(1, 10) {
		// one large section (beyond 64 KiB, the size at which chunked reading becomes plausible)
		spec.Blocks = append(spec.Blocks[:min(len(spec.Blocks), 2)], BlkSpec{Kind: Pick(r, []string{"raw", "cbor", "v0"}), Seed: 40, Size: Pick(r, []int{65537, 131072 + 5, 70000, 200000})})
		if len(spec.Roots) == 0 {
			spec.Roots = []BlkSpec{{Kind: "raw", Seed: 1, Size: 3}}
		}
		spec.NullPad = 0
	} else if run%60 == 0 {
		// (rare, expensive classes are scheduled by run number rather than drawn, so that every batch of 60
		// runs has them whatever the seed)
		// one section beyond the default section size limit (8 MiB), to be read with the limit raised
		spec.Blocks = []BlkSpec{{Kind: "raw", Seed: 42, Size: 8<<20 + 4096 + 9}}
		spec.Roots = []BlkSpec{{Kind: "raw", Seed: 1, Size: 3}}
		spec.NullPad, spec.IndexPad, spec.DataPad = 0, 0, 0
	} else if run%60 == 1 {
		// more sections than the batches loaders work in (1000)
		spec.Blocks = spec.Blocks[:0]
		for i := 0; i < 1100; i++ {
			spec.Blocks = append(spec.Blocks, BlkSpec{Kind: "raw", Seed: uint64(5000 + i), Size: i % 3})
		}
		spec.Roots = []BlkSpec{{Kind: "raw", Seed: 5000, Size: 0}}
		spec.V2, spec.NullPad = r.Chance(1, 3), 0
	} else if r.Chance(1, 60) {
		// one section of a few MiB: beyond the chunk sizes a reader that does not trust the declared
		// length would grow its buffer in
		spec.Blocks = append(spec.Blocks[:min(len(spec.Blocks), 1)], BlkSpec{Kind: Pick(r, []string{"raw", "v0"}), Seed: 41, Size: Pick(r, []int{2<<20 + 1<<19 + 7, 1<<20 + 1<<18})})
		if len(spec.Roots) == 0 {
			spec.Roots = []BlkSpec{{Kind: "raw", Seed: 1, Size: 3}}
		}
		spec.NullPad = 0
	}
	return &Trace{Prop: "C02", Engine: "medium", Seed: seed, Run: run, Medium: &MediumSpec{Image: spec, All: true, Del: sim.Delivery{ErrAt: -1}}, Extra: map[string]any{}}
}

func init() {
	RegisterPlan("C02", func(tier string) *Plan {
		every := tier == "thorough"
		return &Plan{
			Prop: "C02", Level: "fault_enumeration", Engine: "medium",
			Runs:   tierPick(tier, 240, 40000),
			Budget: tierPick(tier, 55*time.Second, 14*time.Minute),
			Rule: "valid CARv1/CARv2 images (<=5 blocks) built by the reference codec; for each image EVERY truncation offset and " + tierPick(tier, "every bit of every block-data and digest byte plus one seeded bit of every other byte", "EVERY single-bit flip") +
				" is applied as a medium fault and the result is read by each verifying reader (v2 BlockReader.Next untrusted, Reader.Inspect(true), root-module CarReader.Next / LoadCar slow+fast, internal carv1 CarReader.Next / LoadCar) under two (capability profile, delivery plan) pairs rotating over all profiles. Oracle: every returned block hashes to its CID (computed by the harness); a flip in block data/digest and a cut inside a header or strictly inside a section end in an error that is not a clean end; a cut on a section boundary returns exactly the blocks before it. " +
				"An evaluation is one (mutated medium, reader, profile, delivery); distinct non-trivial = distinct (image shape, fault kind, structural region, reader, profile, outcome class)",
			Gen: func(seed uint64, run int) *Trace {
				t := GenC02(seed, run)
				if every {
					t.Extra["every_bit"] = true
				}
				return t
			},
			Exec: RunC02, Minimise: true, ExtraShrink: shrinkMedium,
			Assume: []string{"'every scanning reader' in the statement is read as 'every verifying reader' (non-verifying scanners cannot detect corruption)", "single faults per medium (one cut or one flipped bit)"},
			Real:   realAll, Stub: stubMedium, Schedule: "single task; the simulator owns the medium content and its delivery",
			ExtraCov: map[string]any{"exhaustive_per_image": "all truncation offsets; all single-bit flips in thorough tier"},
		}
	})
}
