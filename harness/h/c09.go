package h

import (
	"bytes"
	"context"
	"errors"
	"fmt"
	"io"
	"os"
	"path/filepath"
	"runtime"
	"runtime/debug"
	"sort"
	"strings"
	"time"

	"github.com/ipfs/go-cid"
	rootcar "github.com/ipld/go-car"
	rootutil "github.com/ipld/go-car/util"
	carv2 "github.com/ipld/go-car/v2"
	"github.com/ipld/go-car/v2/blockstore"
	"github.com/ipld/go-car/v2/index"
	"github.com/ipld/go-car/v2/storage"
	"github.com/ipld/go-car/v2/verifbridge"
	mh "github.com/multiformats/go-multihash"
	"verif/sim"
)

// C09: parsers are total and resource-bounded on arbitrary input.

var c09Entries = []string{
	"newreader", "readversion", "blockreader", "loadindex:sorted", "loadindex:mhsorted", "loadindex:insertion",
	"generateindex", "readorgenerate", "indexreadfrom", "readonly", "openreadable", "resume:rw", "resume:sc",
	"wrapv1", "root", "rootload", "v1", "extractv1file", "replacerootsinfile",
	"blockreader-over-datareader",
}

// c09Case is one (medium, entry point, options, delivery) execution.
type c09Result struct {
	apiCalls  int // library calls the driver made: each may carry a fixed decoding overhead
	panicV    any
	alloc     uint64
	calls     int
	errSeen   error
	getErrs   []error // per probe key: the error of the buffering lookup (Get), stores only
	truncHuge bool
	endless   string // an enumeration that delivered more items than the input has bytes
}

func c09Profile(entry string, r *Rng) string {
	switch entry {
	case "newreader", "readonly", "openreadable", "blockreader-over-datareader":
		return Pick(r, []string{sim.ProfA, sim.ProfRSA, sim.ProfRSAB})
	case "readorgenerate", "wrapv1":
		return Pick(r, []string{sim.ProfRS, sim.ProfRSB, sim.ProfRSA, sim.ProfRSAB})
	}
	return Pick(r, readerProfiles)
}

// runEntry drives one parsing entry point over data. It must never panic or hang by itself.
func runEntry(entry string, data []byte, profile string, del sim.Delivery, opts ReadOpts, choices string, probeKeys []cid.Cid, tmpDir string) (res c09Result) {
	src, core := sim.NewSource(data, profile, del)
	core.Budget = srcBudget(len(data))*4 + 20000
	o := opts.Options()
	limit := len(data) + 16
	prevMax := rootutil.MaxAllowedSectionSize
	defer func() {
		rootutil.MaxAllowedSectionSize = prevMax
		res.calls = core.Calls
		switch entry {
		case "readonly", "openreadable":
			res.apiCalls = 3*len(probeKeys) + 4
		case "newreader":
			res.apiCalls = 6
		case "resume:rw", "resume:sc":
			res.apiCalls = 2*len(probeKeys) + 4
		default:
			res.apiCalls = 2
		}
	}()
	if opts.MaxSection > 0 {
		rootutil.MaxAllowedSectionSize = uint(opts.MaxSection)
	}
	note := func(err error) {
		if err != nil && res.errSeen == nil {
			res.errSeen = err
		}
	}
	res.panicV = safeCall(func() {
		switch entry {
		case "newreader":
			rd, err := carv2.NewReader(src.(io.ReaderAt), o...)
			note(err)
			if err != nil {
				return
			}
			_, err = rd.Roots()
			note(err)
			if dr, err := rd.DataReader(); err == nil {
				io.CopyN(io.Discard, dr, 64)
			}
			if ir, err := rd.IndexReader(); err == nil && ir != nil {
				io.CopyN(io.Discard, ir, 64)
			}
			_, err = rd.Inspect(false)
			note(err)
			_, err = rd.Inspect(true)
			note(err)
		case "readversion":
			_, err := carv2.ReadVersion(src.(io.Reader), o...)
			note(err)
		case "blockreader":
			br, err := carv2.NewBlockReader(src.(io.Reader), o...)
			note(err)
			if err != nil {
				return
			}
			for i := 0; i < limit; i++ {
				var err error
				if i < len(choices) && choices[i] == 'S' {
					_, err = br.SkipNext()
				} else {
					_, err = br.Next()
				}
				if err != nil {
					note(err)
					return
				}
			}
		case "blockreader-over-datareader":
			// a composition of two public APIs: the payload reader handed out by Reader, iterated by BlockReader
			rd, err := carv2.NewReader(src.(io.ReaderAt), o...)
			note(err)
			if err != nil {
				return
			}
			dr, err := rd.DataReader()
			note(err)
			if err != nil {
				return
			}
			br, err := carv2.NewBlockReader(dr, o...)
			note(err)
			if err != nil {
				return
			}
			for i := 0; i < limit; i++ {
				var err error
				if i < len(choices) && choices[i] == 'S' {
					_, err = br.SkipNext()
				} else {
					_, err = br.Next()
				}
				if err != nil {
					note(err)
					return
				}
			}
		case "loadindex:sorted", "loadindex:mhsorted", "loadindex:insertion", "generateindex", "readorgenerate":
			prod := map[string]string{"loadindex:sorted": "load:sorted", "loadindex:mhsorted": "load:mhsorted", "loadindex:insertion": "load:insertion", "generateindex": "generate:mhsorted", "readorgenerate": "readorgen:mhsorted"}[entry]
			idx, err := produceIndex(prod, src, opts)
			note(err)
			if err == nil && idx != nil {
				useIndex(idx, probeKeys)
			}
		case "insertionunmarshal":
			ii := index.NewInsertionIndex()
			err := ii.Unmarshal(src.(io.Reader))
			note(err)
			if err == nil {
				useIndex(ii, probeKeys)
			}
		case "indexreadfrom":
			idx, err := index.ReadFrom(src.(io.Reader))
			note(err)
			if err == nil {
				useIndex(idx, probeKeys)
			}
		case "readonly":
			ro, err := blockstore.NewReadOnly(src.(io.ReaderAt), nil, o...)
			note(err)
			if err != nil {
				return
			}
			for _, k := range probeKeys {
				ro.Has(bg, k)
				_, gerr := ro.Get(bg, k)
				res.getErrs = append(res.getErrs, gerr)
				ro.GetSize(bg, k)
			}
			useIndex(ro.Index(), nil)
			_, rerr := ro.Roots()
			note(rerr)
			ctx, cancel := context.WithCancel(bg)
			ch, err := ro.AllKeysChan(ctx)
			if err == nil {
				n := 0
				for range ch {
					n++
					if n > limit {
						// every key takes at least one byte of input: this listing is not going to end
						res.endless = fmt.Sprintf("AllKeysChan delivered %d keys from %d bytes of input and was still going", n, len(data))
						break
					}
				}
			}
			cancel()
			if ch != nil {
				for range ch {
				}
			}
			// whatever the calls above returned, the store can still be closed
			closed := make(chan struct{})
			go func() { ro.Close(); close(closed) }()
			select {
			case <-closed:
			case <-time.After(3 * time.Second):
				res.endless = "Close did not return within 3s after the lookups and the key listing had returned (a lock is still held)"
			}
		case "openreadable":
			rc, err := storage.OpenReadable(src.(io.ReaderAt), o...)
			note(err)
			if err != nil {
				return
			}
			for _, k := range probeKeys {
				rc.Has(bg, k.KeyString())
				_, gerr := rc.Get(bg, k.KeyString())
				res.getErrs = append(res.getErrs, gerr)
				if s, err := rc.GetStream(bg, k.KeyString()); err == nil {
					io.Copy(io.Discard, s)
					s.Close()
				}
			}
			rc.Roots()
		case "resume:rw", "resume:sc":
			env := NewEnv()
			d := sim.FromBytes(env.Path, data)
			env.SetDisk(d)
			cfg := Config{Store: entry[7:], Roots: []BlkSpec{{"raw", 1, 5}}, ZeroEOF: opts.ZeroEOF, MaxHeader: opts.MaxHeader, MaxSection: opts.MaxSection}
			st, err := OpenStore(env, cfg)
			note(err)
			if err == nil {
				for _, k := range probeKeys {
					st.Has(k)
					st.Get(k)
				}
				st.Put(MakeBlock(BlkSpec{"raw", 4242, 9}))
				st.Finalize()
			}
			if d.Size() > 1<<30 {
				res.truncHuge = true
			}
		case "wrapv1":
			var out bytes.Buffer
			note(carv2.WrapV1(src.(io.ReadSeeker), &out, o...))
		case "root":
			cr, err := rootcar.NewCarReader(src.(io.Reader))
			note(err)
			if err != nil {
				return
			}
			for i := 0; i < limit; i++ {
				if _, err := cr.Next(); err != nil {
					note(err)
					return
				}
			}
		case "rootload":
			var blks []retBlk
			_, err := rootcar.LoadCar(bg, &fastCollector{collector{out: &blks}}, src.(io.Reader))
			note(err)
		case "v1":
			cr, err := verifbridge.NewCarReaderWithoutDefaults(src.(io.Reader), opts.ZeroEOF, orDefault(opts.MaxHeader, 32<<20), orDefault(opts.MaxSection, 8<<20))
			note(err)
			if err != nil {
				return
			}
			for i := 0; i < limit; i++ {
				if _, err := cr.Next(); err != nil {
					note(err)
					return
				}
			}
		case "extractv1file", "replacerootsinfile":
			p := filepath.Join(tmpDir, fmt.Sprintf("c09-%d.car", os.Getpid()))
			if err := os.WriteFile(p, data, 0o644); err != nil {
				panic(&InfraError{"temp file: " + err.Error()})
			}
			defer os.Remove(p)
			if entry == "extractv1file" {
				dst := p + ".out"
				note(carv2.ExtractV1File(p, dst, o...))
				os.Remove(dst)
			} else {
				note(carv2.ReplaceRootsInFile(p, []cid.Cid{MakeBlock(BlkSpec{"raw", 1, 5}).Cid}, o...))
			}
		default:
			panic(&InfraError{"unknown C09 entry " + entry})
		}
	})
	return
}

// useIndex does what a caller does with a loaded index: look keys up, iterate it (the way the
// Inspect documentation recommends for vetting an untrusted index), serialise it again.
func useIndex(idx index.Index, probeKeys []cid.Cid) {
	if idx == nil {
		return
	}
	for _, k := range probeKeys {
		idx.GetAll(k, func(uint64) bool { return true })
	}
	if it, ok := idx.(index.IterableIndex); ok {
		n := 0
		it.ForEach(func(mh.Multihash, uint64) error {
			n++
			if n > 1<<20 {
				return errors.New("enough")
			}
			return nil
		})
	}
	var b bytes.Buffer
	index.WriteTo(idx, &b)
}

// allocBound is the property's resource bound for one case.
func allocBound(opts ReadOpts, n int) uint64 {
	hl, sl := orDefault(opts.MaxHeader, 32<<20), orDefault(opts.MaxSection, 8<<20)
	return hl + sl + c09PerByte*uint64(n) + c09Slack
}

// The "amount proportional to the input size": generous enough for per-section
// bookkeeping (index records, hashing buffers) yet far below any declared-size
// allocation that the limits are meant to stop when they are set small.
const (
	c09PerByte = 1024
	c09Slack   = 1 << 20
	c09PerCall = 32 << 10 // fixed overhead allowed per library call of a multi-call driver (a header decode is ~10 KiB)
)

var c09Announce *os.File

func announce(t *Trace) {
	if c09Announce == nil {
		return
	}
	b, _ := jsonBytes(t)
	b = append(b, '\n')
	c09Announce.Truncate(0)
	c09Announce.WriteAt(b, 0)
}

// runC09Case executes and judges one case; the case is announced first so that a
// process death can be attributed to it.
func runC09Case(t *Trace, l *Layout, data []byte, st *Stats) *Violation {
	ms := t.Medium
	announce(t)
	var probes []cid.Cid
	for i, b := range l.Blocks {
		if i < 3 {
			probes = append(probes, b.Cid)
		}
	}
	probes = append(probes, MakeBlock(BlkSpec{"raw", 777, 5}).Cid, MakeBlock(BlkSpec{"id", 777, 4}).Cid)
	tmp := filepath.Join(scratchDir(), "tmp")
	var ms0, ms1 runtime.MemStats
	runtime.ReadMemStats(&ms0)
	start := time.Now()
	res := runEntry(ms.Entry, data, ms.Profile, ms.Del, ms.Opts, ms.Choices, probes, tmp)
	el := time.Since(start)
	runtime.ReadMemStats(&ms1)
	res.alloc = ms1.TotalAlloc - ms0.TotalAlloc
	st.Steps += int64(res.calls)
	loc := ms.Entry + "@" + mutLocus(l, ms.Muts)
	if ms.Entry == "insertionunmarshal" && len(ms.Muts) > 0 {
		loc = ms.Entry + "@" + ms.Muts[0].Kind // the medium is the serialised index, not a CAR image
	}
	if res.panicV != nil {
		if be, ok := res.panicV.(sim.BudgetExceeded); ok {
			return viol("medium/nontermination/"+loc, "%s made %d source calls on a %d-byte input without finishing: %v", ms.Entry, be.Calls, len(data), be)
		}
		return viol("medium/panic/"+loc, "%s panicked on a %d-byte input (%v): %v", ms.Entry, len(data), ms.Muts, res.panicV)
	}
	if el > 10*time.Second {
		return viol("medium/nontermination/"+loc, "%s took %v on a %d-byte input", ms.Entry, el, len(data))
	}
	if res.endless != "" {
		return viol("medium/nontermination/"+loc, "%s: %s", ms.Entry, res.endless)
	}
	if b := allocBound(ms.Opts, len(data)) + uint64(res.apiCalls)*c09PerCall; res.alloc > b {
		// identify the allocating site: re-run the case with full allocation profiling
		site := allocSite(func() { runEntry(ms.Entry, data, ms.Profile, ms.Del, ms.Opts, ms.Choices, probes, tmp) })
		return viol("medium/over-allocation/via:"+site, "%s allocated %d bytes on a %d-byte input (%v), mostly in %s; bound is header limit + section limit + %d*len + %d + %d per library call = %d", ms.Entry, res.alloc, len(data), ms.Muts, site, c09PerByte, c09Slack, c09PerCall, b)
	}
	if res.alloc > uint64(64*len(data)+256<<10) {
		st.Probe("c09:alloc-above-64x")
	}
	return nil
}

// c09Limits checks the boundary clause on VALID files: a header / section of
// exactly the maximum is accepted, one byte more is rejected with the too-large
// error before allocating for it.
func c09Limits(t *Trace, l *Layout, st *Stats) *Violation {
	hdrLen := uint64(l.Payload.HeaderLen - UvarintSize(uint64(l.Payload.HeaderLen)))
	_, hn, _ := ReadUvarint(l.Image[l.DataOffset:])
	hdrLen = uint64(l.Payload.HeaderLen - hn)
	var maxSec uint64
	for _, s := range l.Payload.Sections {
		if v := uint64(s.CidLen + s.DataLen); v > maxSec {
			maxSec = v
		}
	}
	type lim struct {
		what   string
		opts   ReadOpts
		accept bool
		want   error
	}
	var lims []lim
	zero := l.Spec.NullPad > 0
	pragmaHdr := uint64(10)
	if hdrLen >= pragmaHdr || !l.Spec.V2 {
		lims = append(lims, lim{"header=max", ReadOpts{ZeroEOF: zero, MaxHeader: hdrLen}, true, nil})
		if hdrLen-1 >= pragmaHdr || !l.Spec.V2 {
			lims = append(lims, lim{"header=max+1", ReadOpts{ZeroEOF: zero, MaxHeader: hdrLen - 1}, false, verifbridge.ErrHeaderTooLarge})
		}
	}
	if maxSec > 0 {
		lims = append(lims, lim{"section=max", ReadOpts{ZeroEOF: zero, MaxSection: maxSec}, true, nil})
		lims = append(lims, lim{"section=max+1", ReadOpts{ZeroEOF: zero, MaxSection: maxSec - 1}, false, verifbridge.ErrSectionTooLarge})
	}
	// limits configured as exactly 0: nothing fits, every entry point refuses the header
	lims = append(lims, lim{"limits=0", ReadOpts{ZeroEOF: zero, ZeroLimits: true}, false, verifbridge.ErrHeaderTooLarge})
	for _, lm := range lims {
		for _, entry := range []string{"blockreader", "newreader", "v1", "readonly", "openreadable", "loadindex:sorted", "replacerootsinfile"} {
			if entry == "v1" && (l.Spec.V2 || len(l.Roots) == 0 || lm.opts.ZeroLimits) {
				continue
			}
			if entry == "replacerootsinfile" && (lm.opts.MaxSection > 0 || lm.accept) {
				continue // root replacement buffers the header: the header-too-large cases only (it may fail for other reasons)
			}
			if lm.opts.MaxSection > 0 && (entry == "loadindex:sorted") {
				continue // index generation skips over section bodies, it does not buffer them
			}
			pt := t.Clone()
			pt.Medium.All = false
			pt.Medium.Entry, pt.Medium.Profile, pt.Medium.Opts, pt.Medium.Muts = entry, sim.ProfRSAB, lm.opts, nil
			pt.Medium.Choices = ""
			pt.Extra = map[string]any{"limit": lm.what}
			if v := c09LimitCase(pt, l, st); v != nil {
				if st.Report == nil || st.Report(pt, v) {
					return v
				}
			}
		}
	}
	return nil
}

// c09LimitCase runs one boundary case; t.Extra["limit"] names it ("header=max", "section=max+1", ...).
func c09LimitCase(pt *Trace, l *Layout, st *Stats) *Violation {
	entry, what, opts := pt.Medium.Entry, fmt.Sprint(pt.Extra["limit"]), pt.Medium.Opts
	lm := struct {
		what   string
		opts   ReadOpts
		accept bool
		want   error
	}{what, opts, strings.HasSuffix(what, "=max"), verifbridge.ErrSectionTooLarge}
	if strings.HasPrefix(what, "header") || strings.HasPrefix(what, "limits=0") {
		lm.want = verifbridge.ErrHeaderTooLarge
	}
	sectionCase := lm.opts.MaxSection > 0
	prof := pt.Medium.Profile
	st.Evals++
	announce(pt)
	var probes []cid.Cid
	for _, s := range l.Payload.Sections {
		probes = append(probes, s.Cid)
	}
	res := runEntry(entry, l.Image, prof, sim.Delivery{ErrAt: -1}, lm.opts, "", probes, filepath.Join(scratchDir(), "tmp"))
	if res.panicV != nil {
		v := viol("medium/panic/"+entry+"@limit:"+lm.what, "%s panicked on a valid archive with %s: %v", entry, lm.what, res.panicV)
		return v
	}
	var v *Violation
	if lm.accept {
		if res.errSeen != nil && (errors.Is(res.errSeen, verifbridge.ErrHeaderTooLarge) || errors.Is(res.errSeen, verifbridge.ErrSectionTooLarge)) {
			v = viol("medium/limit-rejects-at-max/"+entry+"@"+lm.what, "%s rejected a valid archive whose largest %s: %v", entry, lm.what, res.errSeen)
		}
		for _, gerr := range res.getErrs {
			if v == nil && gerr != nil && errors.Is(gerr, verifbridge.ErrSectionTooLarge) {
				v = viol("medium/limit-rejects-at-max/"+entry+".get@"+lm.what, "%s: Get rejected a section of a valid archive whose largest %s: %v", entry, lm.what, gerr)
			}
		}
	} else if entry == "readonly" || entry == "openreadable" {
		if !sectionCase {
			if res.errSeen == nil || !errors.Is(res.errSeen, lm.want) {
				v = viol("medium/limit-not-enforced/"+entry+"@"+lm.what, "%s did not reject with the too-large error (%v) a valid archive with %s", entry, res.errSeen, lm.what)
			}
		} else if res.errSeen == nil && len(res.getErrs) == len(l.Payload.Sections) {
			// Get buffers the section: the lookup of a section over the maximum is refused
			mhCount := map[string]int{}
			for _, s := range l.Payload.Sections {
				mhCount[string(s.Cid.Hash())]++
			}
			for i, s := range l.Payload.Sections {
				// (a digest stored twice may be served from the other, smaller section)
				if uint64(s.CidLen+s.DataLen) > lm.opts.MaxSection && !IsIdentity(s.Cid) && mhCount[string(s.Cid.Hash())] == 1 && !errors.Is(res.getErrs[i], lm.want) {
					v = viol("medium/limit-not-enforced/"+entry+".get@"+lm.what, "%s: Get of a %d-byte section under a %d-byte maximum did not fail with the too-large error (got %v)", entry, s.CidLen+s.DataLen, lm.opts.MaxSection, res.getErrs[i])
					break
				}
			}
		}
	} else if res.errSeen == nil || !errors.Is(res.errSeen, lm.want) {
		v = viol("medium/limit-not-enforced/"+entry+"@"+lm.what, "%s did not reject with the too-large error (got %v) a valid archive with %s", entry, res.errSeen, lm.what)
	}
	st.Probe("c09:limit-case")
	return v
}

func c09Mutations(l *Layout, r *Rng, n int) [][]Mut {
	all := c13Mutations(l, r, false)
	// multi-fault media and raw garbage
	var out [][]Mut
	for i := 0; i < n && len(all) > 1; i++ {
		k := 1
		if r.Chance(1, 4) {
			k = r.Range(2, 3)
		}
		var ms []Mut
		for j := 0; j < k; j++ {
			m := all[1+r.Intn(len(all)-1)]
			ms = append(ms, m...)
		}
		out = append(out, ms)
	}
	for i := 0; i < 4; i++ {
		out = append(out, []Mut{{Kind: "garbage", Len: r.Range(0, 300), Val: r.U64()}})
	}
	// hostile declared sizes in every length-like field (what the guards are for)
	for _, f := range l.Fields() {
		for _, v := range []uint64{1 << 24, 1 << 31, 1 << 36, 1<<63 - 1, 1<<64 - 1} {
			out = append(out, []Mut{{Kind: "field", Field: f.Name, Val: v}})
		}
		// an empty index bucket in combination with each boundary width (two fields that must agree)
		if strings.HasSuffix(f.Name, ".width") {
			lenField := strings.TrimSuffix(f.Name, ".width") + ".len"
			for _, w := range []uint64{0, 1, 7, 8, 9, 40, 1 << 31} {
				out = append(out, []Mut{{Kind: "field", Field: f.Name, Val: w}, {Kind: "field", Field: lenField, Val: 0}})
			}
		}
		// values that are small negative numbers when taken as int64 (relative seeks that go backwards)
		if f.Kind == "varint" {
			for _, k := range []uint64{1, 2, 3, 9, 10, 11, 12, 34, 35, 36, 37, 38, 44, 45, 46, 47, 48} {
				out = append(out, []Mut{{Kind: "field", Field: f.Name, Val: ^uint64(0) - k + 1}})
			}
			if l.Spec.V2 && strings.HasPrefix(f.Name, "sec") {
				// the same inside a CARv2 whose header still describes the (now longer) payload correctly, so
				// that the entry points that trust the container get as far as the section
				for _, v := range []uint64{^uint64(0) - 9, ^uint64(0) - 10, ^uint64(0) - 45, 1 << 63, 1<<63 - 1, 1 << 36} {
					out = append(out, []Mut{{Kind: "fieldfix", Field: f.Name, Val: v}})
				}
			}
		}
	}
	return out
}

// RunC09 executes one case or enumerates cases for one image.
func RunC09(t *Trace, st *Stats) *Violation {
	ms := t.Medium
	l := BuildImage(ms.Image)
	if !ms.All {
		st.Evals++
		if ms.Entry == "indexreadfrom" && l.IndexOffset != 0 && t.Extra != nil && t.Extra["index_only"] == true {
			ix := &Layout{Spec: l.Spec, Image: l.Image[l.IndexOffset:], Payload: &RefPayload{}}
			_ = ix
		}
		if t.Extra != nil && t.Extra["limit"] != nil {
			return c09LimitCase(t, l, st)
		}
		if t.Extra != nil && t.Extra["insertion_serialised"] == true {
			ser := insertionSerialised(l)
			if ser == nil {
				return nil
			}
			sl := &Layout{Spec: l.Spec, Image: ser, Payload: &RefPayload{}}
			return runC09Case(t, sl, sl.ApplyMuts(ms.Muts), st)
		}
		return runC09Case(t, l, c09Data(t, l), st)
	}
	r := RunRng(t.Seed, "C09", "medium-enum", t.Run)
	var first *Violation
	seen := map[string]bool{}
	report := func(pt *Trace, v *Violation) bool {
		if seen[v.Sig] {
			return false
		}
		seen[v.Sig] = true
		if st.Report != nil {
			return st.Report(pt, v)
		}
		if first == nil {
			first = v
		}
		return false
	}
	if v := c09Limits(t, l, st); v != nil && st.Report == nil {
		return v
	}
	muts := c09Mutations(l, r, tierPick(fmt.Sprint(t.Extra["tier"]), 60, 300))
	for _, m := range muts {
		for k := 0; k < 3; k++ {
			entry := Pick(r, c09Entries)
			pt := t.Clone()
			pt.Medium.All = false
			pt.Medium.Muts = m
			pt.Medium.Entry = entry
			pt.Medium.Profile = c09Profile(entry, r)
			pt.Medium.Del = GenDelivery(r)
			if r.Chance(1, 10) {
				pt.Medium.Del.ErrAt = int64(r.Intn(len(l.Image) + 1))
			}
			pt.Medium.Opts = ReadOpts{ZeroEOF: r.Bool(), MaxHeader: uint64(Pick(r, []int{64, 256, 1024, 4096})), MaxSection: uint64(Pick(r, []int{128, 512, 2048, 8192})), StoreID: r.Bool()}
			cs := make([]byte, 12)
			for i := range cs {
				cs[i] = "NS"[r.Intn(2)]
			}
			pt.Medium.Choices = string(cs)
			if entry == "indexreadfrom" && l.IndexOffset != 0 {
				pt.Extra = map[string]any{"index_only": true}
			}
			st.Evals++
			data := c09Data(pt, l)
			v := runC09Case(pt, l, data, st)
			for _, mm := range m {
				st.Fault(mm.Kind, 1)
			}
			if pt.Medium.Del.ErrAt >= 0 {
				st.Fault("read-error", 1)
			}
			st.Mark("c09", entry, mutLocus(l, m), pt.Medium.Profile, fmt.Sprint(ms.Image.V2, ms.Image.IndexCodec))
			st.Probe("c09:entry=" + entry)
			if v != nil && report(pt, v) {
				return first
			}
		}
	}
	// the serialised form of the insertion index (an exported parser that index.ReadFrom does not reach):
	// every truncation, hostile record counts, a flipped bit in every byte
	if ser := insertionSerialised(l); ser != nil {
		sl := &Layout{Spec: l.Spec, Image: ser, Payload: &RefPayload{}}
		var ims [][]Mut
		for off := 0; off < len(ser); off++ {
			ims = append(ims, []Mut{{Kind: "trunc", Off: int64(off)}}, []Mut{{Kind: "flip", Off: int64(off), Bit: r.Intn(8)}})
		}
		for _, v := range []uint64{0, 1, 2, 0xff, 0x7f} {
			for b := 0; b < 8; b++ {
				ims = append(ims, []Mut{{Kind: "set", Off: int64(b), Val: v}})
			}
		}
		for _, m := range ims {
			pt := t.Clone()
			pt.Medium.All = false
			pt.Medium.Muts, pt.Medium.Entry, pt.Medium.Profile = m, "insertionunmarshal", Pick(r, []string{sim.ProfR, sim.ProfRB})
			pt.Medium.Del = sim.Delivery{ErrAt: -1}
			pt.Medium.Opts = ReadOpts{}
			pt.Medium.Choices = ""
			pt.Extra = map[string]any{"insertion_serialised": true}
			st.Evals++
			v := runC09Case(pt, sl, sl.ApplyMuts(m), st)
			st.Fault(m[0].Kind, 1)
			st.Mark("c09", "insertionunmarshal", m[0].Kind, pt.Medium.Profile, "")
			st.Probe("c09:entry=insertionunmarshal")
			if v != nil && report(pt, v) {
				return first
			}
		}
	}
	st.Sample(map[string]any{"image": ms.Image, "media": len(muts), "entries": c09Entries})
	return first
}

// insertionSerialised marshals the insertion index of the valid image (nil when it cannot be built).
func insertionSerialised(l *Layout) []byte {
	ii := index.NewInsertionIndex()
	if err := carv2.LoadIndex(ii, bytes.NewReader(l.Image), carv2.ZeroLengthSectionAsEOF(true), carv2.StoreIdentityCIDs(true)); err != nil {
		return nil
	}
	var buf bytes.Buffer
	if _, err := ii.Marshal(&buf); err != nil {
		return nil
	}
	return buf.Bytes()
}

// c09Data is the medium of a case: the corrupted image, or only its index region for index.ReadFrom.
func c09Data(t *Trace, l *Layout) []byte {
	data := l.ApplyMuts(t.Medium.Muts)
	if t.Extra != nil && t.Extra["index_only"] == true && l.IndexOffset != 0 && int64(len(data)) > l.IndexOffset {
		return data[l.IndexOffset:]
	}
	return data
}

func GenC09(seed uint64, run int) *Trace {
	r := RunRng(seed, "C09", "medium", run)
	spec := GenImageSpec(r, 6)
	for i := range spec.Blocks {
		if spec.Blocks[i].Size > 100 {
			spec.Blocks[i].Size = r.Range(0, 100)
		}
	}
	if r.Chance(1, 2) {
		spec.V2 = true
		if spec.IndexCodec == 0 {
			spec.IndexCodec = Pick(r, []uint64{CodecSorted, CodecMhSorted})
		}
	}
	return &Trace{Prop: "C09", Engine: "medium", Seed: seed, Run: run, Medium: &MediumSpec{Image: spec, All: true, Del: sim.Delivery{ErrAt: -1}}, Extra: map[string]any{}}
}

// C09ChildInit prepares a child process: GC off during cases is not needed
// (TotalAlloc counts allocations, not live memory); the announce file is opened.
func C09ChildInit(announcePath string) {
	debug.SetGCPercent(100)
	if announcePath != "" {
		f, err := os.OpenFile(announcePath, os.O_RDWR|os.O_CREATE, 0o644)
		if err == nil {
			c09Announce = f
		}
	}
}

// allocSite re-runs f with every allocation sampled and returns the innermost
// go-car / go-cid function of the stack that allocated the most bytes.
func allocSite(f func()) string {
	old := runtime.MemProfileRate
	runtime.MemProfileRate = 1
	defer func() { runtime.MemProfileRate = old }()
	f() // consumes the sampling distance computed under the old rate; from here on every allocation is sampled
	runtime.GC()
	runtime.GC()
	runtime.GC()
	before := map[[32]uintptr]int64{}
	recs := make([]runtime.MemProfileRecord, 4096)
	n, ok := runtime.MemProfile(recs, true)
	for !ok {
		recs = make([]runtime.MemProfileRecord, n+512)
		n, ok = runtime.MemProfile(recs, true)
	}
	for _, r := range recs[:n] {
		before[r.Stack0] += r.AllocBytes // buckets are per (stack, size): sum per stack
	}
	f()
	for i := 0; i < 6; i++ {
		runtime.GC()
	}
	n, ok = runtime.MemProfile(recs, true)
	for !ok {
		recs = make([]runtime.MemProfileRecord, n+512)
		n, ok = runtime.MemProfile(recs, true)
	}
	after := map[[32]uintptr]int64{}
	rep := map[[32]uintptr]runtime.MemProfileRecord{}
	for _, r := range recs[:n] {
		after[r.Stack0] += r.AllocBytes
		rep[r.Stack0] = r
	}
	var best runtime.MemProfileRecord
	var bestDelta int64
	var keys [][32]uintptr
	for k := range after {
		keys = append(keys, k)
	}
	sort.Slice(keys, func(i, j int) bool {
		for x := 0; x < 32; x++ {
			if keys[i][x] != keys[j][x] {
				return keys[i][x] < keys[j][x]
			}
		}
		return false
	})
	for _, k := range keys {
		d := after[k] - before[k]
		if d <= bestDelta {
			continue
		}
		r := rep[k]
		inCase := false
		frs := runtime.CallersFrames(r.Stack())
		for {
			fr, more := frs.Next()
			if strings.HasSuffix(fr.Function, "h.runEntry") {
				inCase = true
			}
			if !more {
				break
			}
		}
		if !inCase {
			continue // this function's own bookkeeping (record buffers, the snapshot maps)
		}
		bestDelta, best = d, r
	}
	if dbg := os.Getenv("VERIF_DEBUG_ALLOC"); dbg != "" {
		if lf, err := os.OpenFile(dbg, os.O_APPEND|os.O_CREATE|os.O_WRONLY, 0o644); err == nil {
			fmt.Fprintf(lf, "allocSite pid %d: %d records, bestDelta %d\n", os.Getpid(), n, bestDelta)
			if bestDelta < 100000 {
				for _, r := range recs[:n] {
					if d := r.AllocBytes - before[r.Stack0]; d > 4000 || r.AllocBytes > 500000 {
						f0, _ := runtime.CallersFrames(r.Stack()).Next()
						fmt.Fprintf(lf, "     delta %d total %d objs %d  %s\n", d, r.AllocBytes, r.AllocObjects, f0.Function)
					}
				}
			}
			fr := runtime.CallersFrames(best.Stack())
			for bestDelta > 0 {
				f, more := fr.Next()
				fmt.Fprintf(lf, "   %s\n", f.Function)
				if !more {
					break
				}
			}
			lf.Close()
		}
	}
	if bestDelta == 0 {
		return "unknown"
	}
	if false {
		fr := runtime.CallersFrames(best.Stack())
		fmt.Fprintf(os.Stderr, "allocSite: best delta %d bytes, stack:\n", bestDelta)
		for {
			f, more := fr.Next()
			fmt.Fprintf(os.Stderr, "   %s\n", f.Function)
			if !more {
				break
			}
		}
	}
	frames := runtime.CallersFrames(best.Stack())
	for {
		fr, more := frames.Next()
		fn := fr.Function
		if strings.Contains(fn, "github.com/ipld/go-car") || strings.Contains(fn, "github.com/ipfs/go-cid") || strings.Contains(fn, "go-multihash") || strings.Contains(fn, "whyrusleeping/cbor") || strings.Contains(fn, "go-ipld-cbor") || strings.Contains(fn, "refmt") {
			if !strings.Contains(fn, "verif/harness") {
				fn = strings.TrimPrefix(fn, "github.com/ipld/go-car/v2/")
				fn = strings.TrimPrefix(fn, "github.com/ipld/go-car/")
				fn = strings.TrimPrefix(fn, "github.com/ipfs/")
				fn = strings.TrimPrefix(fn, "github.com/")
				if strings.HasPrefix(fn, "polydawn/refmt/") {
					// the CBOR decoder of the CARv1 header allocates declared lengths in several of its
					// functions (Readn, Readnzc, NewUnmarshaller ...): one site, named by the module
					return "polydawn/refmt"
				}
				return fn
			}
		}
		if !more {
			break
		}
	}
	return "unknown"
}
