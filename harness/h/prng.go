package h

import (
	"encoding/binary"
	"hash/fnv"
)

// Rng is xoshiro256** seeded through splitmix64. It is the only source of
// randomness in the harness, so that a (seed, property, run) triple is one run
// irrespective of the Go version the harness was built with.
type Rng struct{ s [4]uint64 }

func splitmix(x *uint64) uint64 {
	*x += 0x9e3779b97f4a7c15
	z := *x
	z = (z ^ (z >> 30)) * 0xbf58476d1ce4e5b9
	z = (z ^ (z >> 27)) * 0x94d049bb133111eb
	return z ^ (z >> 31)
}

func NewRng(seed uint64) *Rng {
	r := &Rng{}
	x := seed
	for i := range r.s {
		r.s[i] = splitmix(&x)
	}
	return r
}

// RunRng derives the generator of one run.
func RunRng(seed uint64, prop string, engine string, run int) *Rng {
	h := fnv.New64a()
	var b [8]byte
	binary.LittleEndian.PutUint64(b[:], seed)
	h.Write(b[:])
	h.Write([]byte(prop))
	h.Write([]byte{0})
	h.Write([]byte(engine))
	h.Write([]byte{0})
	binary.LittleEndian.PutUint64(b[:], uint64(run))
	h.Write(b[:])
	return NewRng(h.Sum64())
}

func rotl(x uint64, k uint) uint64 { return (x << k) | (x >> (64 - k)) }

func (r *Rng) U64() uint64 {
	res := rotl(r.s[1]*5, 7) * 9
	t := r.s[1] << 17
	r.s[2] ^= r.s[0]
	r.s[3] ^= r.s[1]
	r.s[1] ^= r.s[2]
	r.s[0] ^= r.s[3]
	r.s[2] ^= t
	r.s[3] = rotl(r.s[3], 45)
	return res
}

// Intn returns a value in [0,n). n must be > 0.
func (r *Rng) Intn(n int) int {
	if n <= 0 {
		panic("Intn: n <= 0")
	}
	return int(r.U64() % uint64(n))
}

// Range returns a value in [lo,hi].
func (r *Rng) Range(lo, hi int) int { return lo + r.Intn(hi-lo+1) }

func (r *Rng) Bool() bool { return r.U64()&1 == 1 }

// Chance is true with probability num/den.
func (r *Rng) Chance(num, den int) bool { return r.Intn(den) < num }

func (r *Rng) Bytes(n int) []byte {
	out := make([]byte, n)
	for i := 0; i < n; i += 8 {
		v := r.U64()
		for j := 0; j < 8 && i+j < n; j++ {
			out[i+j] = byte(v >> (8 * j))
		}
	}
	return out
}

func Pick[T any](r *Rng, xs []T) T { return xs[r.Intn(len(xs))] }
