package h

import (
	"bufio"
	"context"
	"fmt"
	"os"
	"path/filepath"
	"regexp"
	"runtime"
	"sort"
	"strings"
	"sync"
	"time"

	"github.com/ipfs/go-cid"
	"github.com/ipld/go-car/v2/blockstore"
	"github.com/ipld/go-car/v2/storage"
	"github.com/ipld/go-car/v2/storage/deferred"
	"verif/sim"
)

// The race pass of C08: the same client programs as the scheduler engine, but
// with real goroutines, real sync mutexes (sim types in pass-through), real
// temp files and the Go race detector. The schedule is the Go runtime's: this
// pass is runtime monitoring, used for exactly one clause ("no data races").

type raceTarget struct {
	put      func(b Blk) error
	putMany  func(bs []Blk) error
	has      func(c cid.Cid) (bool, error)
	get      func(c cid.Cid) ([]byte, error)
	getSize  func(c cid.Cid) (int, error)
	keys     func() error
	roots    func() error
	finalize func() error
	other    func(kind string)
	cleanup  func()
}

func openRaceTarget(t *Trace, dir string, n int) (*raceTarget, error) {
	cfg := t.Cfg
	path := filepath.Join(dir, fmt.Sprintf("race-%d-%d.car", os.Getpid(), n))
	os.Remove(path)
	rt := &raceTarget{cleanup: func() { os.Remove(path) }}
	switch t.Sched.Target {
	case "rw":
		rw, err := blockstore.OpenReadWrite(path, cfg.RootCids(), cfg.Options()...)
		if err != nil {
			return nil, err
		}
		s := &rwStore{rw: rw}
		rt.put, rt.putMany, rt.has, rt.get, rt.getSize = s.Put, s.PutMany, s.Has, s.Get, s.GetSize
		rt.keys = func() error { _, err := s.Keys(); return err }
		rt.roots = func() error { _, err := s.Roots(); return err }
		rt.finalize = s.Finalize
		rt.other = func(kind string) {
			switch kind {
			case "finalize_ro":
				s.FinalizeReadOnly()
			case "close":
				s.Close()
			case "discard":
				s.Discard()
			}
		}
	case "sc":
		f, err := sim.OpenFile(path, os.O_RDWR|os.O_CREATE, 0o644)
		if err != nil {
			return nil, err
		}
		sc, err := storage.NewReadableWritable(f, cfg.RootCids(), cfg.Options()...)
		if err != nil {
			return nil, err
		}
		s := &scStore{sc: sc}
		rt.put, rt.has, rt.get, rt.getSize = s.Put, s.Has, s.Get, s.GetSize
		rt.putMany = s.PutMany
		rt.keys = func() error { return nil }
		rt.roots = func() error { _, err := s.Roots(); return err }
		rt.finalize = s.Finalize
		old := rt.cleanup
		rt.cleanup = func() { f.Close(); old() }
	case "dw":
		var dw *deferred.DeferredCarWriter
		if cfg.Store == "stream" {
			f, err := os.Create(path)
			if err != nil {
				return nil, err
			}
			dw = deferred.NewDeferredCarWriterForStream(f, cfg.RootCids(), cfg.Options()...)
			old := rt.cleanup
			rt.cleanup = func() { f.Close(); old() }
		} else {
			dw = deferred.NewDeferredCarWriterForPath(path, cfg.RootCids(), cfg.Options()...)
		}
		for i := 0; i < t.Sched.Callbacks; i++ {
			dw.OnPut(func(int) { runtime.Gosched() }, false)
		}
		rt.put = func(b Blk) error { return dw.Put(bg, b.Cid.KeyString(), b.Data) }
		rt.has = func(c cid.Cid) (bool, error) { return dw.Has(bg, c.KeyString()) }
		rt.finalize = dw.Close
	default:
		return nil, fmt.Errorf("unknown target %s", t.Sched.Target)
	}
	return rt, nil
}

// RunRaceProgram executes the client programs of t with real goroutines.
// ErrRaceHang is returned when the client programs do not finish (real-time watchdog).
var ErrRaceHang = fmt.Errorf("race program did not finish (deadlock?)")

func RunRaceProgram(t *Trace, dir string, n int) error {
	rt, err := openRaceTarget(t, dir, n)
	if err != nil {
		return err
	}
	defer rt.cleanup()
	var wg sync.WaitGroup
	start := make(chan struct{})
	for _, prog := range t.Sched.Clients {
		prog := prog
		wg.Add(1)
		go func() {
			defer wg.Done()
			defer func() { recover() }()
			<-start
			for _, op := range prog {
				var b Blk
				if len(op.Blks) > 0 {
					b = MakeBlock(op.Blks[0])
				}
				switch op.Kind {
				case "put":
					rt.put(b)
				case "putmany":
					if rt.putMany != nil {
						rt.putMany(MakeBlocks(op.Blks))
					}
				case "has":
					rt.has(b.Cid)
				case "get":
					if rt.get != nil {
						rt.get(b.Cid)
					}
				case "getsize":
					if rt.getSize != nil {
						rt.getSize(b.Cid)
					}
				case "keys":
					if rt.keys != nil {
						rt.keys()
					}
				case "roots":
					if rt.roots != nil {
						rt.roots()
					}
				case "finalize":
					rt.finalize()
				case "finalize_ro", "close", "discard":
					if rt.other != nil {
						rt.other(op.Kind)
					}
				}
			}
		}()
	}
	close(start)
	done := make(chan struct{})
	go func() { wg.Wait(); close(done) }()
	select {
	case <-done:
	case <-time.After(raceHangTimeout):
		return ErrRaceHang
	}
	rt.finalize()
	return nil
}

var raceHangTimeout = 30 * time.Second

var raceFrame = regexp.MustCompile(`^\s+(github\.com/ipld/go-car\S+)\(\)\s*$`)

// ParseRaceLog extracts one signature per DATA RACE block: the first go-car
// frame of each of the two access stacks, sorted.
func ParseRaceLog(text string) []string {
	var sigs []string
	blocks := strings.Split(text, "WARNING: DATA RACE")
	for _, b := range blocks[1:] {
		if i := strings.Index(b, "=================="); i >= 0 {
			b = b[:i]
		}
		// sections: "Write at ... by goroutine N:" / "Previous read at ...": take the first go-car frame after each header
		var firsts []string
		sc := bufio.NewScanner(strings.NewReader(b))
		sc.Buffer(make([]byte, 1<<20), 1<<20)
		inAccess := false
		got := false
		top := false
		harnessAccess := false
		for sc.Scan() {
			line := sc.Text()
			tl := strings.TrimSpace(line)
			if strings.HasPrefix(tl, "Read at") || strings.HasPrefix(tl, "Write at") || strings.HasPrefix(tl, "Previous read at") || strings.HasPrefix(tl, "Previous write at") ||
				strings.HasPrefix(tl, "Atomic") || strings.HasPrefix(tl, "Previous atomic") {
				inAccess, got, top = true, false, true
				continue
			}
			if inAccess && top && tl != "" && !strings.HasPrefix(tl, "/") {
				// the innermost frame of an access: a race ON a harness/simulator variable is not go-car's
				if strings.HasPrefix(tl, "verif/") {
					harnessAccess = true
				}
				top = false
			}
			if strings.HasPrefix(tl, "Goroutine ") {
				inAccess = false
				continue
			}
			if inAccess && !got {
				if m := raceFrame.FindStringSubmatch(line); m != nil {
					f := m[1]
					f = strings.TrimPrefix(f, "github.com/ipld/go-car/v2/")
					f = strings.TrimPrefix(f, "github.com/ipld/go-car/")
					firsts = append(firsts, f)
					got = true
				}
			}
		}
		if len(firsts) == 0 || harnessAccess {
			continue // no go-car frame, or the racing access is to a harness variable: not ours to report
		}
		sort.Strings(firsts)
		sigs = append(sigs, "race/data-race/"+strings.Join(firsts, "|"))
	}
	return sigs
}

// RaceWorker runs programs [shard, shard+nshard, ...) and reports races found
// (attributed to the program during which the race log grew).
func RaceWorker(seed uint64, tier string, shard, nshard int, out string) int {
	sim.CurrentFS = nil
	sim.SetScheduler(nil)
	if tier == "quick" {
		raceHangTimeout = 12 * time.Second
	}
	dir := filepath.Join(scratchDir(), "tmp")
	os.MkdirAll(dir, 0o755)
	logBase := os.Getenv("VERIF_RACE_LOG")
	logFile := fmt.Sprintf("%s.%d", logBase, os.Getpid())
	findings, err := LoadFindings(verifDir())
	if err != nil {
		fmt.Fprintln(os.Stderr, "harness:", err)
		return 2
	}
	st := NewStats()
	rep := &WorkerReport{Stats: st}
	known := map[string]*KnownHit{}
	start := time.Now()
	budget := budgetOverride(tierPick(tier, 20*time.Second, 10*time.Minute))
	runs := tierPick(tier, 1600, 400000)
	var lastSize int64
	reps := tierPick(tier, 3, 5)
	for run := shard; run < runs; run += nshard {
		if time.Since(start) > budget {
			break
		}
		t := GenC08(seed, run)
		t.Engine = "race"
		st.Runs++
		hung := false
		for k := 0; k < reps; k++ {
			st.Evals++
			if err := RunRaceProgram(t, dir, run); err != nil {
				if err == ErrRaceHang {
					// confirm once with fresh goroutines and a fresh store before reporting
					if err2 := RunRaceProgram(t, dir, run); err2 == ErrRaceHang {
						hung = true
						break
					}
				}
				st.Inconclusive++
				fmt.Fprintln(os.Stderr, "race:", err)
			}
		}
		if hung {
			sig := "race/hang/" + t.Sched.Target
			if f := knownSig(findings, "C08", sig); f == nil {
				vt := t.Clone()
				vt.Sig = sig
				vt.What = fmt.Sprintf("with real goroutines and real mutexes the client programs did not finish within %v, twice in a row (deadlock)", raceHangTimeout)
				rep.Violations = append(rep.Violations, vt)
			}
			break // goroutines of the hung programs are still stuck: this process is done
		}
		nops := 0
		for _, c := range t.Sched.Clients {
			nops += len(c)
		}
		st.Steps += int64(nops * reps)
		st.Mark("c08race", fmt.Sprint(t.Sched.Target, len(t.Sched.Clients), nops))
		fi, err := os.Stat(logFile)
		if err != nil || fi.Size() == lastSize {
			continue
		}
		b, _ := os.ReadFile(logFile)
		newText := string(b[lastSize:])
		lastSize = fi.Size()
		for _, sig := range ParseRaceLog(newText) {
			if f := knownSig(findings, "C08", sig); f != nil {
				kh := known[sig]
				if kh == nil {
					kh = &KnownHit{Sig: sig, What: f.What}
					known[sig] = kh
				}
				kh.Count++
				continue
			}
			dup := false
			for _, old := range rep.Violations {
				if old.Sig == sig {
					dup = true
				}
			}
			if dup {
				continue
			}
			vt := t.Clone()
			vt.Sig = sig
			vt.What = "the Go race detector reported a data race between go-car code paths while these client programs ran: " + firstRaceBlock(newText)
			rep.Violations = append(rep.Violations, vt)
		}
	}
	for _, k := range known {
		rep.KnownHits = append(rep.KnownHits, *k)
	}
	st.Probe("race:programs")
	st.Seal()
	rep.WallS = time.Since(start).Seconds()
	return writeReport(rep, out)
}

func firstRaceBlock(text string) string {
	i := strings.Index(text, "WARNING: DATA RACE")
	if i < 0 {
		return ""
	}
	b := text[i:]
	if len(b) > 1800 {
		b = b[:1800]
	}
	return b
}

// RaceReplay re-runs the workload of a race trace up to 20 times and reports whether a race shows.
func RaceReplay(t *Trace) (string, string) {
	sim.CurrentFS = nil
	sim.SetScheduler(nil)
	if strings.HasPrefix(t.Sig, "race/hang/") {
		raceHangTimeout = 5 * time.Second
		for k := 0; k < 40; k++ { // the hang needs the runtime to produce the interleaving: try repeatedly
			if RunRaceProgram(t, filepath.Join(scratchDir(), "tmp"), k) == ErrRaceHang {
				return t.Sig, fmt.Sprintf("the client programs did not finish within %v (deadlock), attempt %d", raceHangTimeout, k+1)
			}
		}
		return "", ""
	}
	dir := filepath.Join(scratchDir(), "tmp")
	os.MkdirAll(dir, 0o755)
	logFile := fmt.Sprintf("%s.%d", os.Getenv("VERIF_RACE_LOG"), os.Getpid())
	// Which pair of code paths the detector names for one racy variable depends on the runtime's
	// schedule: keep executing until the recorded pair shows (at most 20 executions), and fall back to
	// the first report otherwise.
	firstSig, firstWhat := "", ""
	for k := 0; k < 20; k++ {
		RunRaceProgram(t, dir, k)
		if b, err := os.ReadFile(logFile); err == nil && len(b) > 0 {
			sigs := ParseRaceLog(string(b))
			if len(sigs) > 0 && firstSig == "" {
				firstSig, firstWhat = sigs[0], firstRaceBlock(string(b))
			}
			for _, sg := range sigs {
				if sg == t.Sig {
					return sg, firstRaceBlock(string(b))
				}
			}
			if firstSig != "" && (t.Sig == "" || k >= 7) {
				break
			}
		}
	}
	return firstSig, firstWhat
}

var _ = context.Background
