package h

import (
	"bytes"
	"encoding/binary"
	"fmt"
	"sort"

	"github.com/ipfs/go-cid"
	mh "github.com/multiformats/go-multihash"
	"verif/sim"
)

// ImageSpec describes a VALID archive built by the reference codec.
type ImageSpec struct {
	V2         bool      `json:"v2,omitempty"`
	DataPad    int       `json:"data_pad,omitempty"`
	IndexPad   int       `json:"index_pad,omitempty"`
	IndexCodec uint64    `json:"index_codec,omitempty"` // 0 = no index (IndexOffset 0)
	FullyIdx   bool      `json:"fully_indexed,omitempty"`
	NullPad    int       `json:"null_pad,omitempty"` // zero bytes appended to the payload (inside DataSize for v2)
	Roots      []BlkSpec `json:"roots"`
	Blocks     []BlkSpec `json:"blocks"`
	// HeaderEnc selects an encoding of the CARv1 header that the library accepts although it is not the
	// canonical DAG-CBOR it writes itself: 1 = the version as a two-byte integer (18 01), 2 = the roots
	// as an indefinite-length array (9f .. ff). Used only by checks whose statement covers every accepted
	// input (C13, C03), not where HEAD is known to depend on the canonical size (BlockReader offsets).
	HeaderEnc int `json:"header_enc,omitempty"`
	// Trailer: bytes that follow the CARv2 in its source (after the index, or after the payload of an
	// index-less one): whatever else the stream or file carries is none of the reader's business
	Trailer int `json:"trailer,omitempty"`
}

// Layout locates structure in a built image.
type Layout struct {
	Spec        ImageSpec
	Image       []byte
	DataOffset  int64
	DataSize    int64 // includes null padding
	PayloadLen  int64 // without null padding
	IndexOffset int64 // 0 = none
	IndexLen    int64
	Payload     *RefPayload
	Roots       []cid.Cid
	Blocks      []Blk
}

// EncodeIndex is the reference encoder of the two sorted index formats.
func EncodeIndex(codec uint64, recs []IdxRec) []byte {
	out := PutUvarint(codec)
	encMulti := func(rs []IdxRec) []byte {
		byW := map[int][]IdxRec{}
		var ws []int
		for _, r := range rs {
			w := len(r.Digest) + 8
			if _, ok := byW[w]; !ok {
				ws = append(ws, w)
			}
			byW[w] = append(byW[w], r)
		}
		sort.Ints(ws)
		var b []byte
		b = binary.LittleEndian.AppendUint32(b, uint32(len(ws)))
		for _, w := range ws {
			l := byW[w]
			sort.SliceStable(l, func(i, j int) bool { return bytes.Compare(l[i].Digest, l[j].Digest) < 0 })
			b = binary.LittleEndian.AppendUint32(b, uint32(w))
			b = binary.LittleEndian.AppendUint64(b, uint64(w*len(l)))
			for _, r := range l {
				b = append(b, r.Digest...)
				b = binary.LittleEndian.AppendUint64(b, r.Off)
			}
		}
		return b
	}
	switch codec {
	case CodecSorted:
		out = append(out, encMulti(recs)...)
	case CodecMhSorted:
		byC := map[uint64][]IdxRec{}
		var cs []uint64
		for _, r := range recs {
			if _, ok := byC[r.Code]; !ok {
				cs = append(cs, r.Code)
			}
			byC[r.Code] = append(byC[r.Code], r)
		}
		sort.Slice(cs, func(i, j int) bool { return cs[i] < cs[j] })
		out = binary.LittleEndian.AppendUint32(out, uint32(len(cs)))
		for _, c := range cs {
			out = binary.LittleEndian.AppendUint64(out, c)
			out = append(out, encMulti(byC[c])...)
		}
	default:
		panic("EncodeIndex: codec")
	}
	return out
}

// BuildImage encodes spec with the reference codec.
func BuildImage(spec ImageSpec) *Layout {
	l := &Layout{Spec: spec}
	for _, r := range spec.Roots {
		l.Roots = append(l.Roots, MakeBlock(r).Cid)
	}
	if l.Roots == nil {
		l.Roots = []cid.Cid{}
	}
	l.Blocks = MakeBlocks(spec.Blocks)
	payload := EncodePayload(l.Roots, l.Blocks)
	l.PayloadLen = int64(len(payload))
	p, err := DecodePayload(payload, false)
	if err != nil {
		panic(&InfraError{"BuildImage: reference payload does not decode: " + err.Error()})
	}
	l.Payload = p
	if spec.HeaderEnc != 0 {
		_, hn, _ := ReadUvarint(payload)
		body := append([]byte(nil), payload[hn:p.HeaderLen]...)
		switch spec.HeaderEnc {
		case 1:
			body = append(body[:len(body)-1], 0x18, 0x01)
		case 2:
			// a2 65 "roots" <array head> roots... 67 "version" 01
			ah := 1 + 1 + 5
			_, ahn := cborHeadLen(body[ah:])
			tail := append([]byte{0xff}, body[len(body)-9:]...) // break, then 67 "version" 01
			body = append(append(append([]byte{}, body[:ah]...), 0x9f), append(append([]byte{}, body[ah+ahn:len(body)-9]...), tail...)...)
		}
		nh := append(PutUvarint(uint64(len(body))), body...)
		delta := len(nh) - p.HeaderLen
		payload = append(nh, payload[p.HeaderLen:]...)
		p.HeaderLen += delta
		for i := range p.Sections {
			p.Sections[i].Off += int64(delta)
		}
		l.PayloadLen = int64(len(payload))
	}
	payload = append(payload, make([]byte, spec.NullPad)...)
	if !spec.V2 {
		l.Image = payload
		l.DataSize = int64(len(payload))
		return l
	}
	l.DataOffset = int64(RefPragmaSize + RefHeaderSize + spec.DataPad)
	l.DataSize = int64(len(payload))
	h := RefV2Header{DataOffset: uint64(l.DataOffset), DataSize: uint64(l.DataSize)}
	if spec.FullyIdx {
		h.CharHi = 0x80
	}
	var idx []byte
	if spec.IndexCodec != 0 {
		l.IndexOffset = l.DataOffset + l.DataSize + int64(spec.IndexPad)
		h.IndexOffset = uint64(l.IndexOffset)
		idx = EncodeIndex(spec.IndexCodec, ExpectedIndexRecs(p.Sections, spec.IndexCodec, spec.FullyIdx))
		l.IndexLen = int64(len(idx))
	}
	img := append([]byte(nil), RefPragma...)
	img = append(img, h.Encode()...)
	img = append(img, make([]byte, spec.DataPad)...)
	img = append(img, payload...)
	if idx != nil {
		img = append(img, make([]byte, spec.IndexPad)...)
		img = append(img, idx...)
	}
	if spec.Trailer > 0 {
		img = append(img, NewRng(uint64(977+spec.Trailer)).Bytes(spec.Trailer)...)
	}
	l.Image = img
	return l
}

// cborHeadLen returns the argument and the encoded length of the CBOR head at b[0].
func cborHeadLen(b []byte) (uint64, int) {
	switch ai := b[0] & 0x1f; {
	case ai < 24:
		return uint64(ai), 1
	case ai == 24:
		return uint64(b[1]), 2
	case ai == 25:
		return uint64(b[1])<<8 | uint64(b[2]), 3
	default:
		return 0, 5
	}
}

// Region names where absolute offset off of the ORIGINAL image lies, and the
// section number when inside a section. Regions: pragma, v2header, datapad,
// header (CARv1 header incl. its varint), sec-len, sec-cid-prefix, sec-digest,
// sec-data, nullpad, indexpad, index.
func (l *Layout) Region(off int64) (string, int) {
	if l.Spec.V2 {
		switch {
		case off < RefPragmaSize:
			return "pragma", -1
		case off < RefPragmaSize+RefHeaderSize:
			return "v2header", -1
		case off < l.DataOffset:
			return "datapad", -1
		case off >= l.DataOffset+l.DataSize:
			if l.IndexOffset != 0 && off >= l.IndexOffset {
				return "index", -1
			}
			return "indexpad", -1
		}
	}
	po := off - l.DataOffset
	if po < int64(l.Payload.HeaderLen) {
		return "header", -1
	}
	if po >= l.PayloadLen {
		return "nullpad", -1
	}
	for i, s := range l.Payload.Sections {
		if po < s.End() {
			r := po - s.Off
			switch {
			case r < int64(s.LenSize):
				return "sec-len", i
			case r < int64(s.LenSize+s.CidLen):
				dl := int64(len(Digest(s.Cid)))
				if r >= int64(s.LenSize+s.CidLen)-dl {
					return "sec-digest", i
				}
				return "sec-cid-prefix", i
			default:
				return "sec-data", i
			}
		}
	}
	return "?", -1
}

// SectionBoundary reports whether absolute offset off is the start of a section
// or the end of the payload (a cut there is a clean section boundary), and how
// many sections lie entirely before it.
func (l *Layout) SectionBoundary(off int64) (bool, int) {
	po := off - l.DataOffset
	if po == int64(l.Payload.HeaderLen) {
		return true, 0
	}
	for i, s := range l.Payload.Sections {
		if po == s.End() {
			return true, i + 1
		}
	}
	return false, 0
}

// Mut is one corruption fault on the stored medium.
type Mut struct {
	Kind  string `json:"kind"`
	Off   int64  `json:"off,omitempty"`
	Bit   int    `json:"bit,omitempty"`
	Val   uint64 `json:"val,omitempty"`
	Len   int    `json:"len,omitempty"`
	Field string `json:"field,omitempty"`
}

func (m Mut) String() string {
	switch m.Kind {
	case "trunc":
		return fmt.Sprintf("trunc@%d", m.Off)
	case "flip":
		return fmt.Sprintf("flip@%d.%d", m.Off, m.Bit)
	case "field", "fieldfix":
		return fmt.Sprintf("%s:%s<-%d", m.Kind, m.Field, m.Val)
	case "grow":
		return fmt.Sprintf("grow:sec%d+%d", m.Off, m.Len)
	}
	return fmt.Sprintf("%s@%d/%d/%d", m.Kind, m.Off, m.Len, m.Val)
}

// BoundaryValues are substituted into length / offset / count fields.
var BoundaryValues = []uint64{0, 1, 2, 7, 8, 0x7f, 0x80, 0x3fff, 0x4000, 0xffff, 1 << 20, 1<<31 - 1, 1 << 31, 1<<32 - 1, 1 << 32, 1 << 36, 1<<62 - 1, 1 << 62, 1<<63 - 1, 1 << 63, 1<<64 - 1}

// FieldSite is a located numeric field of an image.
type FieldSite struct {
	Name string
	Off  int64
	Kind string // "u64le" | "u32le" | "varint" | "u8"
	Len  int    // current encoded length
}

// Fields lists the numeric fields of the image that corruption can target.
func (l *Layout) Fields() []FieldSite {
	var fs []FieldSite
	base := l.DataOffset
	if l.Spec.V2 {
		fs = append(fs,
			FieldSite{"v2.charhi", 11, "u64le", 8}, FieldSite{"v2.charlo", 19, "u64le", 8},
			FieldSite{"v2.dataoffset", 27, "u64le", 8}, FieldSite{"v2.datasize", 35, "u64le", 8}, FieldSite{"v2.indexoffset", 43, "u64le", 8},
			FieldSite{"pragma.len", 0, "varint", 1}, FieldSite{"pragma.version", 10, "u8", 1})
	}
	_, hn, _ := ReadUvarint(l.Image[base:])
	fs = append(fs, FieldSite{"hdr.len", base, "varint", hn})
	fs = append(fs, FieldSite{"hdr.version", base + int64(l.Payload.HeaderLen) - 1, "u8", 1})
	// the CBOR byte-string head of the first root (0x58 <len>): a declared length inside the header
	if len(l.Roots) > 0 && len(l.Roots) < 24 {
		p := base + int64(hn) + 1 + 6 + 1 + 2
		if p+1 < int64(len(l.Image)) && l.Image[p] == 0x58 {
			fs = append(fs, FieldSite{"hdr.root.cborlen", p, "cborbytes", 2})
		}
	}
	for i, s := range l.Payload.Sections {
		fs = append(fs, FieldSite{fmt.Sprintf("sec%d.len", i), base + s.Off, "varint", s.LenSize})
		// multihash length byte of the CID (last varint before the digest) for digests < 128 bytes
		dl := len(Digest(s.Cid))
		if dl < 128 {
			fs = append(fs, FieldSite{fmt.Sprintf("sec%d.mhlen", i), base + s.Off + int64(s.LenSize+s.CidLen-dl-1), "varint", 1})
		}
	}
	if l.IndexOffset != 0 {
		io := l.IndexOffset
		_, cn, _ := ReadUvarint(l.Image[io:])
		fs = append(fs, FieldSite{"idx.codec", io, "varint", cn})
		p := io + int64(cn)
		walkMulti := func(p int64, tag string) int64 {
			if p+4 > int64(len(l.Image)) {
				return p
			}
			cnt := int32(binary.LittleEndian.Uint32(l.Image[p:]))
			fs = append(fs, FieldSite{tag + "count", p, "u32le", 4})
			p += 4
			for i := int32(0); i < cnt && p+12 <= int64(len(l.Image)); i++ {
				w := binary.LittleEndian.Uint32(l.Image[p:])
				dl := binary.LittleEndian.Uint64(l.Image[p+4:])
				fs = append(fs, FieldSite{fmt.Sprintf("%sw%d.width", tag, i), p, "u32le", 4}, FieldSite{fmt.Sprintf("%sw%d.len", tag, i), p + 4, "u64le", 8})
				p += 12
				if dl >= uint64(w) && w >= 8 {
					fs = append(fs, FieldSite{fmt.Sprintf("%sw%d.off0", tag, i), p + int64(w) - 8, "u64le", 8})
				}
				p += int64(dl)
			}
			return p
		}
		if l.Spec.IndexCodec == CodecSorted {
			walkMulti(p, "idx.")
		} else {
			if p+4 <= int64(len(l.Image)) {
				cnt := int32(binary.LittleEndian.Uint32(l.Image[p:]))
				fs = append(fs, FieldSite{"idx.codes", p, "u32le", 4})
				p += 4
				for i := int32(0); i < cnt && p+8 <= int64(len(l.Image)); i++ {
					fs = append(fs, FieldSite{fmt.Sprintf("idx.c%d.code", i), p, "u64le", 8})
					p = walkMulti(p+8, fmt.Sprintf("idx.c%d.", i))
				}
			}
		}
	}
	return fs
}

func (l *Layout) field(name string) (FieldSite, bool) {
	for _, f := range l.Fields() {
		if f.Name == name {
			return f, true
		}
	}
	return FieldSite{}, false
}

// ApplyMuts returns the corrupted medium.
func (l *Layout) ApplyMuts(muts []Mut) []byte {
	img := append([]byte(nil), l.Image...)
	for _, m := range muts {
		switch m.Kind {
		case "none":
		case "trunc":
			if m.Off >= 0 && m.Off < int64(len(img)) {
				img = img[:m.Off]
			}
		case "flip":
			if m.Off >= 0 && m.Off < int64(len(img)) {
				img[m.Off] ^= 1 << uint(m.Bit&7)
			}
		case "set":
			if m.Off >= 0 && m.Off < int64(len(img)) {
				img[m.Off] = byte(m.Val)
			}
		case "zero":
			for i := m.Off; i < m.Off+int64(m.Len) && i < int64(len(img)); i++ {
				if i >= 0 {
					img[i] = 0
				}
			}
		case "dup":
			if m.Off >= 0 && m.Off+int64(m.Len) <= int64(len(img)) && m.Len > 0 {
				seg := append([]byte(nil), img[m.Off:m.Off+int64(m.Len)]...)
				img = append(img[:m.Off+int64(m.Len)], append(seg, img[m.Off+int64(m.Len):]...)...)
			}
		case "drop":
			if m.Off >= 0 && m.Off+int64(m.Len) <= int64(len(img)) && m.Len > 0 {
				img = append(img[:m.Off], img[m.Off+int64(m.Len):]...)
			}
		case "grow":
			// extra bytes INSIDE section m.Off (an index into the sections): m.Len seeded bytes are inserted
			// at the end of its block, its length prefix is raised to match and, in a CARv2, the payload size
			// and index offset follow - a container that is consistent except for that one block
			if i := int(m.Off); i >= 0 && i < len(l.Payload.Sections) && int64(len(img)) == int64(len(l.Image)) {
				s := l.Payload.Sections[i]
				start := l.DataOffset + s.Off
				end := start + int64(s.LenSize+s.CidLen+s.DataLen)
				nl := PutUvarint(uint64(s.CidLen + s.DataLen + m.Len))
				out := append([]byte{}, img[:start]...)
				out = append(out, nl...)
				out = append(out, img[start+int64(s.LenSize):end]...)
				out = append(out, NewRng(m.Val).Bytes(m.Len)...)
				out = append(out, img[end:]...)
				if delta := int64(len(out) - len(img)); l.Spec.V2 && len(out) >= 51 {
					binary.LittleEndian.PutUint64(out[35:], uint64(l.DataSize+delta))
					if l.IndexOffset != 0 {
						binary.LittleEndian.PutUint64(out[43:], uint64(l.IndexOffset+delta))
					}
				}
				img = out
			}
		case "append":
			img = append(img, NewRng(m.Val).Bytes(m.Len)...)
		case "garbage":
			img = NewRng(m.Val).Bytes(m.Len)
		case "field", "fieldfix":
			f, ok := l.field(m.Field)
			if !ok || f.Off+int64(f.Len) > int64(len(img)) {
				continue
			}
			var enc []byte
			switch f.Kind {
			case "u64le":
				enc = binary.LittleEndian.AppendUint64(nil, m.Val)
			case "u32le":
				enc = binary.LittleEndian.AppendUint32(nil, uint32(m.Val))
			case "u8":
				enc = []byte{byte(m.Val)}
			case "varint":
				enc = PutUvarint(m.Val)
			case "cborbytes":
				enc = cborHead(2, m.Val)
			}
			img = append(img[:f.Off], append(enc, img[f.Off+int64(f.Len):]...)...)
			if delta := int64(len(enc) - f.Len); m.Kind == "fieldfix" && delta != 0 && l.Spec.V2 && f.Off >= l.DataOffset && f.Off < l.DataOffset+l.DataSize && len(img) >= 51 {
				// a field inside the payload changed its encoded length: keep the container consistent
				// (payload size and index offset follow), as a producer of a hostile file would
				binary.LittleEndian.PutUint64(img[35:], uint64(l.DataSize+delta))
				if l.IndexOffset != 0 {
					binary.LittleEndian.PutUint64(img[43:], uint64(l.IndexOffset+delta))
				}
			}
		default:
			panic(&InfraError{"unknown mutation " + m.Kind})
		}
	}
	return img
}

// GenImageSpec draws a valid archive description.
func GenImageSpec(r *Rng, maxBlocks int) ImageSpec {
	s := ImageSpec{V2: r.Chance(3, 5)}
	if s.V2 {
		if r.Chance(1, 3) {
			s.DataPad = Pick(r, []int{1, 7, 100, 512, 1024, 4096})
		}
		if r.Chance(1, 3) {
			s.IndexPad = Pick(r, []int{1, 9, 64})
		}
		switch r.Intn(4) {
		case 0:
			s.IndexCodec = CodecSorted
		case 1, 2:
			s.IndexCodec = CodecMhSorted
		}
		s.FullyIdx = r.Chance(1, 3)
	}
	if r.Chance(1, 6) {
		s.NullPad = Pick(r, []int{1, 2, 17})
	}
	alpha := genAlphabet(r, r.Range(1, 6), false)
	n := r.Range(0, maxBlocks)
	s.Blocks = []BlkSpec{}
	for i := 0; i < n; i++ {
		s.Blocks = append(s.Blocks, Pick(r, alpha))
	}
	// a section whose length sits on a varint boundary (multiple of 128, +-1): the shapes length
	// prefix handling is sensitive to
	if len(s.Blocks) > 0 && r.Chance(1, 3) {
		i := r.Intn(len(s.Blocks))
		if k := s.Blocks[i].Kind; k != "id" && k != "idj" && k != "idsha" && k != "shasha" {
			cl := MakeBlock(BlkSpec{Kind: k, Seed: 1, Size: 1}).Cid.ByteLen()
			s.Blocks[i].Size = Pick(r, []int{128, 256})*1 - cl + Pick(r, []int{-1, 0, 0, 0, 1})
		}
	}
	nroots := Pick(r, []int{0, 1, 1, 1, 2, 3})
	s.Roots = []BlkSpec{}
	for i := 0; i < nroots; i++ {
		if r.Chance(1, 10) {
			// an inline root whose CID length (4 or 5 bytes more than the data) sits on a CBOR head
			// boundary (23|24, 255|256): the header's encoded size changes by a byte there
			s.Roots = append(s.Roots, BlkSpec{Kind: "id", Seed: uint64(r.Intn(3)), Size: Pick(r, []int{18, 19, 20, 250, 251})})
		} else if len(s.Blocks) > 0 && r.Chance(2, 3) {
			s.Roots = append(s.Roots, Pick(r, s.Blocks))
		} else {
			s.Roots = append(s.Roots, BlkSpec{Kind: Pick(r, []string{"raw", "cbor", "v0"}), Seed: uint64(r.Intn(4)), Size: r.Range(0, 30)})
		}
	}
	// a CID that is longer than any hash function makes one (an inline block of a few hundred bytes):
	// longer than the fixed-size heads and look-ahead buffers a reader may decode CIDs from
	if r.Chance(1, 10) && len(s.Blocks) < maxBlocks+2 {
		at := r.Intn(len(s.Blocks) + 1)
		big := BlkSpec{Kind: "id", Seed: uint64(60 + r.Intn(3)), Size: Pick(r, []int{124, 130, 270, 600, 124, 130, 270, 2100})}
		s.Blocks = append(s.Blocks[:at:at], append([]BlkSpec{big}, s.Blocks[at:]...)...)
	}
	return s
}

// GenDelivery draws a delivery plan.
func GenDelivery(r *Rng) sim.Delivery {
	d := sim.Delivery{ErrAt: -1}
	switch r.Intn(6) {
	case 0: // full reads
	case 1:
		d.Chunks = []int{1}
	case 2:
		d.Chunks = []int{r.Range(2, 7)}
	case 3:
		for i, n := 0, r.Range(2, 6); i < n; i++ {
			d.Chunks = append(d.Chunks, r.Range(1, 40))
		}
	case 4:
		d.Chunks = []int{1, 0, 3, 0}
	case 5:
		d.Chunks = []int{r.Range(1, 64)}
	}
	d.EOFWithData = r.Chance(1, 3)
	return d
}

var readerProfiles = []string{sim.ProfR, sim.ProfRB, sim.ProfRS, sim.ProfRSB, sim.ProfRSA, sim.ProfRSAB, sim.ProfPipe, sim.ProfBufio}

// ReadOpts are the reader-side options of a medium case.
type ReadOpts struct {
	ZeroEOF    bool   `json:"zero_eof,omitempty"`
	MaxHeader  uint64 `json:"max_header,omitempty"`
	MaxSection uint64 `json:"max_section,omitempty"`
	StoreID    bool   `json:"store_identity,omitempty"`
	MaxIdxCid  uint64 `json:"max_index_cid,omitempty"`
	IndexCodec uint64 `json:"index_codec,omitempty"`
	WholeCIDs  bool   `json:"whole_cids,omitempty"`
	Trusted    bool   `json:"trusted,omitempty"`
	// ZeroLimits: both size limits explicitly configured as 0 (nothing fits)
	ZeroLimits bool `json:"zero_limits,omitempty"`
}

// MediumSpec is the medium-engine part of a trace.
type MediumSpec struct {
	Image   ImageSpec    `json:"image"`
	Muts    []Mut        `json:"muts,omitempty"`
	Profile string       `json:"profile,omitempty"`
	Del     sim.Delivery `json:"delivery"`
	Choices string       `json:"choices,omitempty"`
	Reader  string       `json:"reader,omitempty"`
	Entry   string       `json:"entry,omitempty"`
	Opts    ReadOpts     `json:"opts"`
	All     bool         `json:"enumerate,omitempty"`
}

var _ = mh.SHA2_256

// LongBlocks replaces the blocks of spec by 70-140 small ones: an archive longer than the 4 KiB
// buffers readers use, with more sections than any small constant.
func LongBlocks(r *Rng, spec *ImageSpec) {
	spec.Blocks = spec.Blocks[:0]
	for i, n := 0, r.Range(70, 140); i < n; i++ {
		spec.Blocks = append(spec.Blocks, BlkSpec{Kind: Pick(r, []string{"raw", "cbor", "v0", "sha1", "t20"}), Seed: uint64(200 + i), Size: r.Range(0, 60)})
	}
	if r.Chance(1, 3) {
		// and a duplicate of an early block late in the archive
		spec.Blocks = append(spec.Blocks, spec.Blocks[r.Intn(10)])
	}
	if len(spec.Roots) == 0 {
		spec.Roots = []BlkSpec{spec.Blocks[0]}
	}
}
