package h

import (
	"bytes"
	"crypto/sha256"
	"encoding/hex"
	"fmt"
	"sync"

	"github.com/ipfs/go-cid"
	mh "github.com/multiformats/go-multihash"
)

// BlkSpec names one block of the alphabet. Two specs with equal (Seed, Size)
// share their underlying bytes X, which is how collisions are built:
//
//	raw / cbor / pb / v0     same multihash, different codec or CID version
//	dbl vs shasha            equal digest under different hash codes
//	raw vs idsha             identity multihash whose digest equals a sha2-256 digest
type BlkSpec struct {
	Kind string `json:"k"`
	Seed uint64 `json:"s"`
	Size int    `json:"n"`
}

func (s BlkSpec) String() string { return fmt.Sprintf("%s/%d/%d", s.Kind, s.Seed, s.Size) }

// Blk is an honest block: Data hashes to Cid.
type Blk struct {
	Spec BlkSpec
	Cid  cid.Cid
	Data []byte
}

var AllKinds = []string{"raw", "cbor", "pb", "v0", "s512", "sha1", "t20", "t16", "dbl", "shasha", "id", "idsha", "idj", "b364"}

func xbytes(seed uint64, size int) []byte {
	return NewRng(seed*0x100000001b3 + uint64(size)*7919 + 1).Bytes(size)
}

var blkCache = map[BlkSpec]Blk{}
var blkCacheMu sync.Mutex

// MakeBlock builds the block a spec denotes. It panics on an unknown kind
// (a trace naming one is corrupt).
func MakeBlock(s BlkSpec) Blk {
	blkCacheMu.Lock()
	if b, ok := blkCache[s]; ok {
		blkCacheMu.Unlock()
		return b
	}
	blkCacheMu.Unlock()
	x := xbytes(s.Seed, s.Size)
	var c cid.Cid
	data := x
	sum := func(d []byte, code uint64, l int) mh.Multihash {
		m, err := mh.Sum(d, code, l)
		if err != nil {
			panic(err)
		}
		return m
	}
	switch s.Kind {
	case "raw":
		c = cid.NewCidV1(cid.Raw, sum(x, mh.SHA2_256, -1))
	case "cbor":
		c = cid.NewCidV1(cid.DagCBOR, sum(x, mh.SHA2_256, -1))
	case "pb":
		c = cid.NewCidV1(cid.DagProtobuf, sum(x, mh.SHA2_256, -1))
	case "v0":
		c = cid.NewCidV0(sum(x, mh.SHA2_256, -1))
	case "s512":
		c = cid.NewCidV1(cid.Raw, sum(x, mh.SHA2_512, -1))
	case "sha1":
		c = cid.NewCidV1(cid.Raw, sum(x, mh.SHA1, -1))
	case "t20":
		c = cid.NewCidV1(cid.Raw, sum(x, mh.SHA2_256, 20))
	case "t16":
		c = cid.NewCidV1(cid.Raw, sum(x, mh.SHA2_256, 16))
	case "dbl":
		c = cid.NewCidV1(cid.Raw, sum(x, mh.DBL_SHA2_256, -1))
	case "shasha":
		h1 := sha256.Sum256(x)
		data = h1[:]
		c = cid.NewCidV1(cid.Raw, sum(data, mh.SHA2_256, -1))
	case "id":
		c = cid.NewCidV1(cid.Raw, sum(x, mh.IDENTITY, -1))
	case "idsha":
		h1 := sha256.Sum256(x)
		data = h1[:]
		c = cid.NewCidV1(cid.Raw, sum(data, mh.IDENTITY, -1))
	case "idj":
		// an inline dag-json node: an identity CID whose codec (0x0129) takes two varint bytes
		c = cid.NewCidV1(0x0129, sum(x, mh.IDENTITY, -1))
	case "b364":
		// a variable-length hash function asked for more than its default output (blake3, 64 bytes)
		c = cid.NewCidV1(cid.Raw, sum(x, mh.BLAKE3, 64))
	case "idp":
		// inline blocks that look alike: equal length, a long common prefix (not in AllKinds; used by
		// generator classes that want digests of one width that agree in their leading bytes)
		data = append([]byte("identity-blk-"), xbytes(s.Seed, max(s.Size, 1))...)
		c = cid.NewCidV1(cid.Raw, sum(data, mh.IDENTITY, -1))
	case "fam":
		// NOT an honest block: a sha2-256 CID whose digest is made up (16 fixed bytes, 16 seeded ones).
		// Index generation does not hash, so such sections are legitimate input for C03 only.
		dg := append(bytes.Repeat([]byte{0xab}, 16), xbytes(s.Seed+77, 16)...)
		m, err := mh.Encode(dg, mh.SHA2_256)
		if err != nil {
			panic(err)
		}
		c = cid.NewCidV1(cid.Raw, m)
	default:
		panic("unknown block kind " + s.Kind)
	}
	b := Blk{Spec: s, Cid: c, Data: data}
	blkCacheMu.Lock()
	blkCache[s] = b
	blkCacheMu.Unlock()
	return b
}

func MakeBlocks(ss []BlkSpec) []Blk {
	out := make([]Blk, len(ss))
	for i, s := range ss {
		out[i] = MakeBlock(s)
	}
	return out
}

// IsIdentity reports whether c carries an identity multihash.
func IsIdentity(c cid.Cid) bool {
	d, err := mh.Decode(c.Hash())
	return err == nil && d.Code == mh.IDENTITY
}

func Digest(c cid.Cid) []byte {
	d, err := mh.Decode(c.Hash())
	if err != nil {
		panic(err)
	}
	return d.Digest
}

func HashCode(c cid.Cid) uint64 {
	d, err := mh.Decode(c.Hash())
	if err != nil {
		panic(err)
	}
	return d.Code
}

// Honest recomputes the multihash of data under c's own hash function and
// length and compares; it does not ask go-car anything.
func Honest(c cid.Cid, data []byte) bool {
	d, err := mh.Decode(c.Hash())
	if err != nil {
		return false
	}
	l := d.Length
	if d.Code == mh.IDENTITY {
		l = -1
	}
	m, err := mh.Sum(data, d.Code, l)
	if err != nil {
		return false
	}
	return string(m) == string(c.Hash())
}

func hx(b []byte) string { return hex.EncodeToString(b) }

func cidHex(c cid.Cid) string { return hex.EncodeToString(c.Bytes()) }

// Sizes that put a raw-sha256 section (36-byte CID) on either side of the
// one-byte / two-byte and two-byte / three-byte length varint boundaries.
var boundarySizes = []int{0, 1, 2, 91, 92, 93, 16347, 16348, 16349}

// GenSpec draws one block spec. seeds is the pool of X seeds (few, so that
// collisions happen); big allows a size that crosses 2^14.
func GenSpec(r *Rng, seedPool int, big bool) BlkSpec {
	kind := Pick(r, AllKinds)
	var size int
	switch v := r.Intn(10); {
	case v < 2:
		size = boundarySizes[r.Intn(6)]
	case v == 2 && big:
		size = boundarySizes[6+r.Intn(3)]
	case v < 6:
		size = r.Range(0, 40)
	default:
		size = r.Range(0, 300)
	}
	if kind == "id" || kind == "idj" {
		// identity CIDs: empty, short, long enough to exceed a 40-byte index CID limit, and around the
		// default index CID limit of 2048 bytes (the CID is 5 bytes longer than the inline data)
		size = Pick(r, []int{0, 3, 20, 60, 100, 0, 3, 20, 60, 2041, 2043, 2044, 2060, 3000})
	} else if kind != "idsha" && kind != "shasha" && r.Chance(1, 14) {
		// a section (CID + data) whose length sits on a power of two +-1: the sizes of buffers and pages
		cl := MakeBlock(BlkSpec{Kind: kind, Seed: 1, Size: 1}).Cid.ByteLen()
		p2 := 1 << uint(r.Range(9, 13))
		if big {
			p2 = 1 << uint(r.Range(9, 16))
		}
		size = p2 - cl + Pick(r, []int{-2, -1, 0, 0, 1})
	}
	return BlkSpec{Kind: kind, Seed: uint64(r.Intn(seedPool)), Size: size}
}
