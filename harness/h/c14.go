package h

import (
	"bytes"
	"fmt"
	"io"
	"os"
	"path/filepath"
	"time"

	carv2 "github.com/ipld/go-car/v2"
	"github.com/multiformats/go-multicodec"
	"verif/sim"
)

func (o ReadOpts) Options() []carv2.Option {
	var out []carv2.Option
	if o.ZeroEOF {
		out = append(out, carv2.ZeroLengthSectionAsEOF(true))
	}
	if o.MaxHeader > 0 {
		out = append(out, carv2.MaxAllowedHeaderSize(o.MaxHeader))
	}
	if o.MaxSection > 0 {
		out = append(out, carv2.MaxAllowedSectionSize(o.MaxSection))
	}
	if o.StoreID {
		out = append(out, carv2.StoreIdentityCIDs(true))
	}
	if o.MaxIdxCid > 0 {
		out = append(out, carv2.MaxIndexCidSize(o.MaxIdxCid))
	}
	if o.IndexCodec != 0 {
		out = append(out, carv2.UseIndexCodec(multicodec.Code(o.IndexCodec)))
	}
	if o.WholeCIDs {
		out = append(out, carv2.UseWholeCIDs(true))
	}
	if o.Trusted {
		out = append(out, carv2.WithTrustedCAR(true))
	}
	if o.ZeroLimits {
		out = append(out, carv2.MaxAllowedHeaderSize(0), carv2.MaxAllowedSectionSize(0))
	}
	return out
}

func srcBudget(n int) int { return 64*n + 4096 }

// Real-world source kinds next to the simulated capability profiles.
const (
	ProfBytes  = "bytes.Reader"
	ProfOSFile = "os.File"
	// the payload reader the library itself hands out: carv2.NewReader(x).DataReader()
	ProfDataReader = "Reader.DataReader"
	// the same over a bytes.Reader the caller has already read from (version sniffing): carv2.NewReader
	// uses ReadAt only, which neither depends on nor moves the Read position
	ProfDataReaderSniffed = "Reader.DataReader/sniffed"
	// the archive embedded in a larger seekable source (a bytes.Reader over preamble + archive + trailer for
	// CARv2, preamble + archive for CARv1), handed over positioned at the start of the archive: a reader
	// reads from where it is given the source, so positions are those of a stream starting there
	ProfEmbedded = "bytes.Reader/embedded"
)

func isDataReaderProf(p string) bool { return p == ProfDataReader || p == ProfDataReaderSniffed }

// openSource returns the reader for a profile, the simulated core (nil for the
// two real kinds), a function giving the highest offset consumed, and a cleanup.
func openSource(data []byte, profile string, del sim.Delivery) (io.Reader, *sim.SrcCore, func() int64, func()) {
	switch profile {
	case ProfDataReader, ProfDataReaderSniffed:
		under := bytes.NewReader(data)
		if profile == ProfDataReaderSniffed {
			if _, err := carv2.ReadVersion(under); err != nil {
				panic(&InfraError{"DataReader source: " + err.Error()})
			}
		}
		rd, err := carv2.NewReader(under)
		if err != nil {
			panic(&InfraError{"DataReader source: " + err.Error()})
		}
		dr, err := rd.DataReader()
		if err != nil {
			panic(&InfraError{"DataReader source: " + err.Error()})
		}
		return dr, nil, func() int64 { return 0 }, func() {}
	case ProfBytes:
		r := bytes.NewReader(data)
		return r, nil, func() int64 { return int64(len(data) - r.Len()) }, func() {}
	case ProfEmbedded:
		pre := []byte("some preamble of thirty-one bytes")
		whole := append(append([]byte{}, pre...), data...)
		r := bytes.NewReader(whole)
		r.Seek(int64(len(pre)), io.SeekStart)
		return r, nil, func() int64 { return int64(len(whole)-r.Len()) - int64(len(pre)) }, func() {}
	case ProfOSFile:
		p := filepath.Join(scratchDir(), "tmp", fmt.Sprintf("src-%d.car", os.Getpid()))
		os.MkdirAll(filepath.Dir(p), 0o755)
		if err := os.WriteFile(p, data, 0o644); err != nil {
			panic(&InfraError{"temp file: " + err.Error()})
		}
		f, err := os.Open(p)
		if err != nil {
			panic(&InfraError{"temp file: " + err.Error()})
		}
		return f, nil, func() int64 { o, _ := f.Seek(0, io.SeekCurrent); return o }, func() { f.Close(); os.Remove(p) }
	}
	src, core := sim.NewSource(data, profile, del)
	core.Budget = srcBudget(len(data)) * 4
	return src.(io.Reader), core, func() int64 { return core.HighWater }, func() {}
}

// runC14One checks one (image, choice string, profile, delivery).
func runC14One(l *Layout, choices string, profile string, del sim.Delivery, opts ReadOpts, st *Stats) *Violation {
	rd, _, hw, done := openSource(l.Image, profile, del)
	defer done()
	var br *carv2.BlockReader
	var err error
	loc := fmt.Sprintf("v%d/%s", map[bool]int{false: 1, true: 2}[l.Spec.V2], map[bool]string{false: "stream", true: "seekable"}[sim.IsSeekable(profile) || profile == ProfBytes || profile == ProfEmbedded || profile == ProfOSFile || isDataReaderProf(profile)])
	if isDataReaderProf(profile) {
		if l.Spec.V2 {
			return nil // the DataReader of a CARv2 is the bare payload: a different archive; covered for CARv1
		}
		loc = "v1/datareader"
	}
	if pv := safeCall(func() { br, err = carv2.NewBlockReader(rd, opts.Options()...) }); pv != nil {
		return viol("medium/panic/blockreader-new", "NewBlockReader panicked on a valid archive: %v", pv)
	}
	if err != nil {
		return viol("medium/valid-rejected/blockreader-new@"+loc, "NewBlockReader rejected a valid archive: %v", err)
	}
	wantV := uint64(1)
	if l.Spec.V2 {
		wantV = 2
	}
	if br.Version != wantV || !sameCids(br.Roots, l.Roots) {
		return viol("medium/wrong-header/blockreader@"+loc, "BlockReader reports version %d roots %v; want %d %v", br.Version, br.Roots, wantV, l.Roots)
	}
	secs := l.Payload.Sections
	type heldBlk struct {
		i    int
		data []byte
	}
	var held []heldBlk // blocks the caller keeps while it goes on iterating
	type heldMeta struct {
		i  int
		md *carv2.BlockMetadata
	}
	var heldMd []heldMeta // likewise the metadata SkipNext handed out
	choice := func(i int) byte {
		if i < len(choices) {
			return choices[i]
		}
		return 'N'
	}
	for i := 0; i <= len(secs); i++ {
		st.Steps++
		var v *Violation
		pv := safeCall(func() {
			if choice(i) == 'S' {
				md, err := br.SkipNext()
				if i == len(secs) {
					if err != io.EOF {
						v = viol("medium/wrong-end/skipnext@"+loc, "after the last block SkipNext returned %v, want io.EOF (choices %q)", err, choices)
					}
					return
				}
				if err != nil {
					v = viol("medium/valid-rejected/skipnext@"+loc, "SkipNext #%d failed on a valid archive: %v (choices %q)", i, err, choices)
					return
				}
				s := secs[i]
				wantSrc := uint64(l.DataOffset + s.Off)
				if !md.Cid.Equals(s.Cid) || md.Offset != uint64(s.Off) || md.SourceOffset != wantSrc || md.Size != uint64(s.DataLen) {
					v = viol("medium/wrong-metadata/skipnext@"+loc, "SkipNext #%d = {cid %s off %d src %d size %d}; want {cid %s off %d src %d size %d} (choices %q)", i, md.Cid, md.Offset, md.SourceOffset, md.Size, s.Cid, s.Off, wantSrc, s.DataLen, choices)
					return
				}
				// the source bytes at SourceOffset really are that section's length prefix
				ln, _, verr := ReadUvarint(l.Image[md.SourceOffset:])
				if verr != nil || ln != uint64(s.CidLen+s.DataLen) {
					v = viol("medium/wrong-metadata/skipnext@"+loc, "bytes at SourceOffset %d are not the section's length prefix", md.SourceOffset)
				}
				heldMd = append(heldMd, heldMeta{i, md})
				return
			}
			blk, err := br.Next()
			if i == len(secs) {
				if err != io.EOF {
					v = viol("medium/wrong-end/next@"+loc, "after the last block Next returned %v, want io.EOF (choices %q)", err, choices)
				}
				return
			}
			if err != nil {
				v = viol("medium/valid-rejected/next@"+loc, "Next #%d failed on a valid archive: %v (choices %q)", i, err, choices)
				return
			}
			if !blk.Cid().Equals(secs[i].Cid) || !bytes.Equal(blk.RawData(), secs[i].Data) {
				v = viol("medium/wrong-block/next@"+loc, "Next #%d returned block %s (%d bytes); want %s (%d bytes) (choices %q)", i, blk.Cid(), len(blk.RawData()), secs[i].Cid, secs[i].DataLen, choices)
			}
			held = append(held, heldBlk{i, blk.RawData()})
		})
		if pv != nil {
			if be, ok := pv.(sim.BudgetExceeded); ok {
				return viol("medium/nontermination/blockreader@"+loc, "reader made no progress: %v", be)
			}
			return viol("medium/panic/blockreader@"+loc, "call #%d panicked: %v (choices %q)", i, pv, choices)
		}
		if v != nil {
			return v
		}
	}
	for _, hb := range held {
		if !bytes.Equal(hb.data, secs[hb.i].Data) {
			return viol("medium/wrong-block/held-result@"+loc, "the bytes of block #%d returned by Next changed while the iteration went on (choices %q)", hb.i, choices)
		}
	}
	for _, hm := range heldMd {
		s, md := secs[hm.i], hm.md
		if !md.Cid.Equals(s.Cid) || md.Offset != uint64(s.Off) || md.SourceOffset != uint64(l.DataOffset+s.Off) || md.Size != uint64(s.DataLen) {
			return viol("medium/wrong-metadata/held-result@"+loc, "the metadata SkipNext returned for block #%d changed while the iteration went on: now {cid %s off %d src %d size %d} (choices %q)", hm.i, md.Cid, md.Offset, md.SourceOffset, md.Size, choices)
		}
	}
	if l.Spec.V2 && profile != sim.ProfBufio { // (a bufio.Reader reads ahead on its own account)
		end := l.DataOffset + l.DataSize
		if w := hw(); w > end {
			return viol("medium/over-consumption/v2-payload@"+loc, "the source was consumed up to offset %d, past the end of the payload at %d (choices %q)", w, end, choices)
		}
	}
	return nil
}

// RunC14 executes one case or enumerates choice strings x profiles.
func RunC14(t *Trace, st *Stats) *Violation {
	ms := t.Medium
	l := BuildImage(ms.Image)
	opts := ms.Opts
	if ms.Image.NullPad > 0 {
		opts.ZeroEOF = true
	}
	if !ms.All {
		st.Evals++
		return runC14One(l, ms.Choices, ms.Profile, ms.Del, opts, st)
	}
	n := len(l.Payload.Sections)
	r := RunRng(t.Seed, "C14", "medium-enum", t.Run)
	var strs []string
	if n <= 6 {
		for m := 0; m < 1<<(n+1); m++ {
			b := make([]byte, n+1)
			for i := range b {
				b[i] = "NS"[(m>>i)&1]
			}
			strs = append(strs, string(b))
		}
	} else {
		strs = append(strs, string(bytes.Repeat([]byte{'N'}, n+1)), string(bytes.Repeat([]byte{'S'}, n+1)))
		for k := 0; k < 40; k++ {
			b := make([]byte, n+1)
			for i := range b {
				b[i] = "NS"[r.Intn(2)]
			}
			strs = append(strs, string(b))
		}
	}
	var first *Violation
	seen := map[string]bool{}
	for _, prof := range append(append([]string{}, readerProfiles...), ProfBytes, ProfOSFile, ProfDataReader, ProfDataReaderSniffed, ProfEmbedded) {
		dels := []sim.Delivery{{ErrAt: -1}, GenDelivery(r), {Chunks: []int{1}, ErrAt: -1, EOFWithData: true}}
		if prof == ProfBytes || prof == ProfEmbedded || prof == ProfOSFile || isDataReaderProf(prof) {
			dels = dels[:1] // real readers deliver as they please
		}
		for di, del := range dels {
			for _, cs := range strs {
				st.Evals++
				v := runC14One(l, cs, prof, del, opts, st)
				st.Fault("delivery:"+prof, 1)
				st.Mark("c14", fmt.Sprint(ms.Image.V2, ms.Image.DataPad, ms.Image.IndexCodec, ms.Image.NullPad, n), cs, prof, fmt.Sprint(di))
				if v == nil {
					continue
				}
				if seen[v.Sig] {
					continue
				}
				seen[v.Sig] = true
				pt := t.Clone()
				pt.Medium.All = false
				pt.Medium.Choices, pt.Medium.Profile, pt.Medium.Del = cs, prof, del
				if st.Report != nil {
					if st.Report(pt, v) {
						return first
					}
				} else if first == nil {
					first = v
				}
			}
		}
	}
	st.Sample(map[string]any{"image": ms.Image, "choice_strings": len(strs), "profiles": readerProfiles})
	return first
}

func GenC14(seed uint64, run int) *Trace {
	r := RunRng(seed, "C14", "medium", run)
	spec := GenImageSpec(r, 8)
	if r.Chance(1, 25) {
		LongBlocks(r, &spec)
	}
	if r.Chance(1, 10) {
		// a block with a 3-byte length varint
		spec.Blocks = append(spec.Blocks, BlkSpec{Kind: "raw", Seed: 9, Size: 16400})
	}
	if spec.V2 && r.Chance(1, 3) {
		// an index-less CARv2 followed by other bytes in its source (every second one), or an indexed one
		// with a trailer: the reader must stop at the end of the payload
		if r.Bool() {
			spec.IndexCodec, spec.IndexPad = 0, 0
		}
		spec.Trailer = Pick(r, []int{1, 37, 300})
	}
	opts := ReadOpts{Trusted: r.Chance(1, 3)}
	return &Trace{Prop: "C14", Engine: "medium", Seed: seed, Run: run, Medium: &MediumSpec{Image: spec, All: true, Opts: opts, Del: sim.Delivery{ErrAt: -1}}}
}

func shrinkMedium(t *Trace, try func(*Trace) bool) *Trace {
	if t.Medium == nil {
		return nil
	}
	var best *Trace
	cur := t
	// drop runs of blocks (halving the run length), then single blocks
	for chunk := len(cur.Medium.Image.Blocks) / 2; chunk >= 1; chunk /= 2 {
		for i := 0; i+chunk <= len(cur.Medium.Image.Blocks); {
			if minimiseExpired() {
				return best
			}
			c := cur.Clone()
			c.Medium.Image.Blocks = append(append([]BlkSpec{}, cur.Medium.Image.Blocks[:i]...), cur.Medium.Image.Blocks[i+chunk:]...)
			if i < len(c.Medium.Choices) {
				c.Medium.Choices = c.Medium.Choices[:i] + c.Medium.Choices[min(i+chunk, len(c.Medium.Choices)):]
			}
			if try(c) {
				cur, best = c, c
			} else {
				i++
			}
		}
	}
	for i := 0; i < len(cur.Medium.Image.Roots); {
		if minimiseExpired() {
			return best
		}
		c := cur.Clone()
		c.Medium.Image.Roots = append(append([]BlkSpec{}, cur.Medium.Image.Roots[:i]...), cur.Medium.Image.Roots[i+1:]...)
		if try(c) {
			cur, best = c, c
		} else {
			i++
		}
	}
	for i := range cur.Medium.Image.Blocks {
		for _, n := range []int{0, 1, 8} {
			if cur.Medium.Image.Blocks[i].Size > n {
				if minimiseExpired() {
					return best
				}
				c := cur.Clone()
				c.Medium.Image.Blocks[i].Size = n
				if try(c) {
					cur, best = c, c
					break
				}
			}
		}
	}
	mods := []func(*MediumSpec){
		func(m *MediumSpec) { m.Image.DataPad = 0 }, func(m *MediumSpec) { m.Image.IndexPad = 0 },
		func(m *MediumSpec) { m.Image.NullPad = 0 }, func(m *MediumSpec) { m.Image.FullyIdx = false },
		func(m *MediumSpec) { m.Del.Chunks = nil }, func(m *MediumSpec) { m.Del.EOFWithData = false },
		func(m *MediumSpec) { m.Opts = ReadOpts{} },
	}
	for _, f := range mods {
		if minimiseExpired() {
			return best
		}
		c := cur.Clone()
		a, _ := jsonOf(c.Medium)
		f(c.Medium)
		b, _ := jsonOf(c.Medium)
		if a != b && try(c) {
			cur, best = c, c
		}
	}
	for i := 0; i < len(cur.Medium.Muts) && len(cur.Medium.Muts) > 1; {
		if minimiseExpired() {
			return best
		}
		c := cur.Clone()
		c.Medium.Muts = append(append([]Mut{}, cur.Medium.Muts[:i]...), cur.Medium.Muts[i+1:]...)
		if try(c) {
			cur, best = c, c
		} else {
			i++
		}
	}
	return best
}

var stubMedium = []string{"the byte medium handed to readers (sim.Source: capability profile, chunked delivery, EOF-with-data, injected EIO)"}

func init() {
	RegisterPlan("C14", func(tier string) *Plan {
		return &Plan{
			Prop: "C14", Level: "exploration", Engine: "medium",
			Runs:   tierPick(tier, 1600, 300000),
			Budget: tierPick(tier, 50*time.Second, 12*time.Minute),
			Rule: "valid CARv1/CARv2 images (padded, with/without index, null padding, up to 8 blocks incl. 3-byte length varints) built by the reference codec; for each image ALL Next/SkipNext choice strings (<=6 blocks; 42 sampled beyond) x 6 simulated capability profiles of the source (Reader, +ByteReader, ReadSeeker, +ByteReader, +ReaderAt, +both) x 3 delivery plans, plus a real bytes.Reader and a real *os.File (full reads, seeded chunking, 1-byte dribble with EOF-with-data). Oracle: reference section table (CID, bytes, Offset, SourceOffset, Size, length prefix at SourceOffset), io.EOF after the last block, and for CARv2 the source's high-water mark never exceeds DataOffset+DataSize. " +
				"An evaluation is one (image, choice string, profile, delivery); distinct non-trivial = distinct (image shape, choice string, profile, delivery class)",
			Gen: GenC14, Exec: RunC14, Minimise: true, ExtraShrink: shrinkMedium,
			Assume: []string{"reference codec locates sections correctly in images it built itself"},
			Real:   realAll, Stub: stubMedium, Schedule: "single task; the nondeterminism owned by the simulator is how the stream is delivered and which capabilities it offers",
		}
	})
}
