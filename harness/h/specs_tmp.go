package h

// placeholders until the medium and sched engines are written
type MediumSpec struct{}
type SchedSpec struct{}
