package h

import (
	"bytes"
	"context"
	"errors"
	"fmt"
	"time"

	"github.com/ipfs/go-cid"
	"github.com/ipld/go-car/v2/storage"
	"github.com/ipld/go-car/v2/storage/deferred"
	"verif/sim"
)

// C16: a failed write does not poison the store or the archive.
//
// Store kinds: rw, sc, sw (disk-backed, io.WriterAt) and ss (storage.NewWritable
// on a plain stream), ds (deferred writer on a stream). Ops: put / finalize.
// Extra["retry"]=true makes the client re-put a block right after its Put failed.

type faultTarget struct {
	disk *sim.Disk
	sink *sim.Sink
}

func (ft faultTarget) writeCalls() int {
	if ft.disk != nil {
		return ft.disk.WriteCalls
	}
	return ft.sink.WriteCalls
}

func (ft faultTarget) faultsHit() int {
	if ft.disk != nil {
		return ft.disk.FaultsHit
	}
	return ft.sink.FaultsHit
}

func (ft faultTarget) bytes() []byte {
	if ft.disk != nil {
		return ft.disk.MustBytes()
	}
	return ft.sink.Buf
}

func toSimFaults(fs []FaultSpec) map[int]sim.Fault {
	m := map[int]sim.Fault{}
	for _, f := range fs {
		k := sim.FaultFail
		if f.Kind == "short" {
			k = sim.FaultShort
		}
		if f.Kind == "late" {
			k = sim.FaultLate
		}
		m[f.Call] = sim.Fault{Kind: k, N: f.N, Trunc: f.Trunc}
	}
	return m
}

// streamStore adapts the stream-target writers.
type streamStore struct {
	w  storage.WritableCar
	dw *deferred.DeferredCarWriter
}

func (s *streamStore) put(b Blk) error {
	if s.dw != nil {
		return s.dw.Put(bg, b.Cid.KeyString(), b.Data)
	}
	return s.w.Put(bg, b.Cid.KeyString(), b.Data)
}
func (s *streamStore) has(c cid.Cid) (bool, error) {
	if s.dw != nil {
		return s.dw.Has(bg, c.KeyString())
	}
	return s.w.Has(bg, c.KeyString())
}
func (s *streamStore) finalize() error {
	if s.dw != nil {
		return s.dw.Close()
	}
	return s.w.Finalize()
}

// faultSession runs the ops once under the given fault plan. It returns the
// number of write calls and the lengths of each write call seen (fault-free run
// uses that to enumerate), plus a violation.
type faultOutcome struct {
	calls   int
	lens    []int
	vacuous bool
	fired   int
}

func runFaultPlan(t *Trace, faults []FaultSpec, st *Stats) (out faultOutcome, v *Violation) {
	prevFS := sim.CurrentFS
	defer func() { sim.CurrentFS = prevFS }()
	cfg := t.Cfg
	retry := false
	if t.Extra != nil {
		if b, ok := t.Extra["retry"].(bool); ok {
			retry = b
		}
		if t.Extra["cancelled_ctx"] == true {
			putCtx = cancelledCtx()
			defer func() { putCtx = bg }()
		}
	}
	twoStep := t.Extra != nil && t.Extra["finalize_two_step"] == true
	env := NewEnv()
	sim.CurrentFS = env.FS
	var ft faultTarget
	var store Store
	var ss *streamStore
	var err error
	fm := toSimFaults(faults)
	stream := cfg.Store == "ss" || cfg.Store == "ds"
	if stream {
		cfg.CarV1 = true
		ft.sink = sim.NewSink()
		ft.sink.Faults = fm
	} else {
		ft.disk = sim.NewDisk(env.Path)
		ft.disk.Faults = fm
		env.SetDisk(ft.disk)
	}
	defer func() {
		out.calls = ft.writeCalls()
		out.fired = ft.faultsHit()
		if ft.disk != nil {
			for _, e := range ft.disk.Log {
				_ = e
			}
		}
	}()
	pv := safeCall(func() {
		switch cfg.Store {
		case "ss":
			var w storage.WritableCar
			w, err = storage.NewWritable(ft.sink, cfg.RootCids(), cfg.Options()...)
			ss = &streamStore{w: w}
		case "ds":
			ss = &streamStore{dw: deferred.NewDeferredCarWriterForStream(ft.sink, cfg.RootCids(), t.Cfg.Options()...)}
		default:
			store, err = OpenStore(env, cfg)
		}
	})
	sim.CurrentFS = env.FS
	if pv != nil {
		return out, viol("fault/panic/open", "open panicked under a write fault: %v", pv)
	}
	if err != nil {
		if ft.faultsHit() == 0 {
			return out, viol("session/open-failed/fresh", "opening a fresh store failed without a fault: %v", err)
		}
		out.vacuous = true // the constructor reported the fault; there is no store to carry on with
		return out, nil
	}
	if ft.faultsHit() > 0 {
		return out, viol("fault/error-swallowed/open", "a write fault during construction was not reported: the constructor returned nil")
	}
	put := func(b Blk) (error, any) {
		var e error
		p := safeCall(func() {
			if ss != nil {
				e = ss.put(b)
			} else {
				e = store.Put(b)
			}
		})
		return e, p
	}
	has := func(c cid.Cid) (bool, error) {
		if ss != nil {
			return ss.has(c)
		}
		return store.Has(c)
	}
	m := NewModel(cfg)
	lastFaultOp := -1
	laterFailed := false
	finalized := false
	checkStored := func(where string) *Violation {
		// every block acknowledged so far is still readable with exact bytes
		if ss != nil || cfg.Store == "sw" || cfg.Store == "sw-nt" {
			for _, b := range m.Secs {
				ok, herr := has(b.Cid)
				if herr != nil {
					laterFailed = true // the store refuses to go on: permitted, never a wrong answer
					return nil
				}
				if !ok {
					return viol("fault/acked-block-missing/"+where, "after the fault, acknowledged block %s is no longer reported (Has=false, nil)", b.Spec)
				}
			}
			return nil
		}
		for _, b := range m.Secs {
			data, gerr := store.Get(b.Cid)
			if gerr != nil && !IsNotFound(gerr) {
				laterFailed = true
				return nil
			}
			if gerr != nil {
				return viol("fault/acked-block-missing/"+where, "after the fault, acknowledged block %s is reported not found: %v", b.Spec, gerr)
			}
			if !bytes.Equal(data, b.Data) {
				return viol("fault/wrong-bytes/"+where, "after the fault, acknowledged block %s reads back wrong bytes", b.Spec)
			}
		}
		return nil
	}
	doPut := func(i int, b Blk) *Violation {
		before := ft.faultsHit()
		verdict := m.PutVerdict(b)
		perr, pv := put(b)
		st.Steps++
		if pv != nil {
			return viol("fault/panic/put", "Put(%s) panicked: %v", b.Spec, pv)
		}
		fired := ft.faultsHit() > before
		if fired {
			lastFaultOp = i
			if perr == nil {
				return viol("fault/error-swallowed/put", "op #%d Put(%s): the underlying writer failed but Put returned nil", i, b.Spec)
			}
			// the failed block must not be reported as stored (unless its key was already there)
			if !m.Present(b.Cid) && !(IsIdentity(b.Cid) && !cfg.StoreID) {
				ok, herr := has(b.Cid)
				if herr == nil && ok {
					return viol("fault/failed-put-reported/has", "op #%d Put(%s) failed (%v) but Has reports the block as stored", i, b.Spec, perr)
				}
				if ss == nil && cfg.Store != "sw" && cfg.Store != "sw-nt" && herr == nil {
					if data, gerr := store.Get(b.Cid); gerr == nil {
						return viol("fault/failed-put-reported/get", "op #%d Put(%s) failed (%v) but Get returns %d bytes", i, b.Spec, perr, len(data))
					}
				}
			}
			if v := checkStored("put"); v != nil {
				return v
			}
			return nil
		}
		// no fault in this call
		if perr != nil {
			if verdict == putReject {
				return nil
			}
			if putCtx != bg && errors.Is(perr, context.Canceled) {
				return nil // refused because of the cancelled context, before anything was written
			}
			if lastFaultOp >= 0 {
				laterFailed = true // permitted: the store may refuse to go on after a failure
				return nil
			}
			return viol("session/model-mismatch/put", "op #%d Put(%s) failed without a fault: %v", i, b.Spec, perr)
		}
		if verdict == putReject {
			return viol("session/model-mismatch/put", "op #%d Put(%s): over-long CID accepted", i, b.Spec)
		}
		if verdict == putStore {
			m.Secs = append(m.Secs, b)
		}
		return nil
	}
	for i, op := range t.Ops {
		switch op.Kind {
		case "put":
			if finalized {
				continue
			}
			b := MakeBlock(op.Blks[0])
			hit := ft.faultsHit()
			if v := doPut(i, b); v != nil {
				return out, v
			}
			if retry && ft.faultsHit() > hit {
				if v := doPut(i, b); v != nil {
					v.What = "retry: " + v.What
					return out, v
				}
			}
		case "putmany":
			// a batch on the blockstore: when the fault lands on a later block, the blocks before it
			// have been written; the call fails as a whole. Whatever Has reports afterwards must be
			// readable with exact bytes, and is what the archive has to contain.
			if finalized || ss != nil {
				continue
			}
			blks := MakeBlocks(op.Blks)
			doBatch := func() (*Violation, bool) {
				before := ft.faultsHit()
				callsBefore := ft.writeCalls()
				var perr error
				if pv := safeCall(func() { perr = store.PutMany(blks) }); pv != nil {
					return viol("fault/panic/putmany", "PutMany panicked: %v", pv), false
				}
				st.Steps++
				fired := ft.faultsHit() > before
				if !fired {
					if perr != nil {
						rej := false
						tmp := &Model{Cfg: m.Cfg, Secs: append([]Blk(nil), m.Secs...)}
						for _, b := range blks {
							if tmp.PutVerdict(b) == putReject {
								rej = true
								break
							}
							if tmp.PutVerdict(b) == putStore {
								tmp.Secs = append(tmp.Secs, b)
							}
						}
						if rej {
							m.Secs = tmp.Secs
							return nil, false
						}
						if lastFaultOp >= 0 {
							laterFailed = true
							return nil, false
						}
						return viol("session/model-mismatch/putmany", "op #%d PutMany failed without a fault: %v", i, perr), false
					}
					for _, b := range blks {
						switch m.PutVerdict(b) {
						case putStore:
							m.Secs = append(m.Secs, b)
						case putReject:
							return viol("session/model-mismatch/putmany", "op #%d PutMany accepted an over-long CID", i), false
						}
					}
					return nil, false
				}
				lastFaultOp = i
				if perr == nil {
					return viol("fault/error-swallowed/putmany", "op #%d PutMany: the underlying writer failed but PutMany returned nil", i), true
				}
				// a stored section takes exactly three write calls (length, CID, data): the sections
				// completed before the faulted call are in the file and belong to the archive
				written := (ft.writeCalls() - callsBefore - 1) / 3
				for _, b := range blks {
					if m.PutVerdict(b) != putStore {
						continue
					}
					if written == 0 {
						// this is the block whose write failed: it must not be reported
						if !m.Present(b.Cid) {
							if ok, herr := store.Has(b.Cid); herr == nil && ok {
								return viol("fault/failed-put-reported/has", "op #%d PutMany failed (%v) on block %s but Has reports it as stored", i, perr, b.Spec), true
							}
						}
						break
					}
					written--
					ok, herr := store.Has(b.Cid)
					if herr != nil {
						laterFailed = true
						return nil, true
					}
					data, gerr := store.Get(b.Cid)
					if !ok || gerr != nil || !bytes.Equal(data, b.Data) {
						return viol("fault/written-block-unreadable/putmany", "op #%d PutMany failed (%v) after block %s had been written completely, but afterwards Has=%v and Get returns %d bytes, err=%v", i, perr, b.Spec, ok, len(data), gerr), true
					}
					m.Secs = append(m.Secs, b)
				}
				if v := checkStored("putmany"); v != nil {
					return v, true
				}
				return nil, true
			}
			v, fired := doBatch()
			if v != nil {
				return out, v
			}
			if fired && retry && !laterFailed {
				if v, _ := doBatch(); v != nil {
					v.What = "retry: " + v.What
					return out, v
				}
			}
		case "finalize":
			if finalized {
				continue
			}
			before := ft.faultsHit()
			var ferr error
			pv := safeCall(func() {
				if ss != nil {
					ferr = ss.finalize()
				} else if twoStep && cfg.Store == "rw" {
					// the two-step way to finish a blockstore: FinalizeReadOnly, then Close
					if ferr = store.FinalizeReadOnly(); ferr == nil {
						ferr = store.Close()
					}
				} else {
					ferr = store.Finalize()
				}
			})
			st.Steps++
			if pv != nil {
				return out, viol("fault/panic/finalize", "Finalize panicked: %v", pv)
			}
			if ft.faultsHit() > before {
				lastFaultOp = i
				if ferr == nil {
					return out, viol("fault/error-swallowed/finalize", "op #%d Finalize: the underlying writer failed but Finalize returned nil", i)
				}
				laterFailed = true // nothing can succeed after a failed Finalize: the rest is vacuous
				continue
			}
			if ferr != nil {
				if lastFaultOp >= 0 {
					laterFailed = true
					continue
				}
				return out, viol("session/finalize-failed/fault-free", "Finalize failed without a fault: %v", ferr)
			}
			finalized = true
		case "restart_clean", "restart_final":
			// prior history: close the instance and reopen the same file (disk-backed read-write stores only)
			if finalized || ss != nil {
				continue
			}
			before := ft.faultsHit()
			if op.Kind == "restart_final" {
				var ferr error
				if pv := safeCall(func() { ferr = store.Finalize() }); pv != nil {
					return out, viol("fault/panic/finalize", "Finalize panicked: %v", pv)
				}
				if ft.faultsHit() > before {
					if ferr == nil {
						return out, viol("fault/error-swallowed/finalize", "op #%d Finalize (before a restart): the underlying writer failed but Finalize returned nil", i)
					}
					out.vacuous = true
					return out, nil
				}
				if ferr != nil {
					if lastFaultOp >= 0 {
						out.vacuous = true
						return out, nil
					}
					return out, viol("session/finalize-failed/fault-free", "Finalize failed without a fault: %v", ferr)
				}
			} else {
				store.Discard()
			}
			var oerr error
			if pv := safeCall(func() { store, oerr = OpenStore(env, cfg) }); pv != nil {
				return out, viol("fault/panic/reopen", "reopen panicked: %v", pv)
			}
			sim.CurrentFS = env.FS
			if oerr != nil {
				if ft.faultsHit() > before || lastFaultOp >= 0 {
					// the fault was reported by the open; the caller carries on by opening again (the fault is transient)
					lastFaultOp = i
					if pv := safeCall(func() { store, oerr = OpenStore(env, cfg) }); pv != nil {
						return out, viol("fault/panic/reopen", "second reopen panicked: %v", pv)
					}
					sim.CurrentFS = env.FS
					if oerr != nil {
						out.vacuous = true
						return out, nil
					}
					st.Probe("fault:reopen-retried-ok")
					continue
				}
				return out, viol("resume/refused/matching", "reopening the same file failed without a fault: %v", oerr)
			}
			if ft.faultsHit() > before {
				return out, viol("fault/error-swallowed/reopen", "op #%d: a write fault while resuming was not reported: the open returned nil", i)
			}
		default:
			panic(&InfraError{"fault: unknown op " + op.Kind})
		}
	}
	if ft.faultsHit() == 0 && len(faults) > 0 {
		out.vacuous = true // the plan's call index was never reached
		return out, nil
	}
	if !finalized {
		out.vacuous = true
		return out, nil
	}
	// Finalize reported success (whether or not the store refused some puts in between): the archive
	// must be well-formed and hold exactly the acknowledged blocks
	_ = laterFailed
	image := ft.bytes()
	if (cfg.Store == "ds" || cfg.Store == "dw") && len(image) == 0 && len(m.Secs) == 0 {
		return out, nil // a deferred writer that acknowledged nothing and wrote (or left) nothing
	}
	if v := CheckFinalImage("fault", cfg, m.Roots, m.Secs, image); v != nil {
		return out, v
	}
	return out, nil
}

// faultLocus classifies write call idx of the fault-free run.
func faultLocus(lens []int, ops []int, idx int, t *Trace) string {
	if idx >= len(ops) {
		return "?"
	}
	op := ops[idx]
	if op == 0 {
		return "open"
	}
	k := t.Ops[op-1].Kind
	if k == "restart_clean" || k == "restart_final" {
		return "restart"
	}
	if k == "put" || k == "putmany" {
		ord := 0
		for q := 0; q < idx; q++ {
			if ops[q] == op {
				ord++
			}
		}
		return k + ":" + []string{"section-varint", "section-cid", "section-data"}[ord%3]
	}
	return k
}

// RunC16 executes one fault plan (t.Faults set) or enumerates all single-fault plans.
func RunC16(t *Trace, st *Stats) *Violation {
	enumerate := t.Extra != nil && t.Extra["enumerate"] == true
	if !enumerate {
		st.Evals++
		_, v := runFaultPlan(t, t.Faults, st)
		if v != nil && t.Extra != nil {
			if loc, ok := t.Extra["locus"].(string); ok {
				v.Sig = v.Sig + "@" + loc
			}
		}
		return v
	}
	every := t.Extra["every_byte"] == true
	// fault-free run: learn the write calls
	base, v := runFaultPlan(t, nil, st)
	st.Evals++
	if v != nil {
		return v
	}
	lens, opsOf := faultFreeWrites(t)
	if len(lens) != base.calls {
		panic(&InfraError{fmt.Sprintf("fault: write-call census mismatch %d vs %d", len(lens), base.calls)})
	}
	var first *Violation
	seen := map[string]bool{}
	try := func(fs []FaultSpec, locus string) bool {
		st.Evals++
		out, v := runFaultPlan(t, fs, st)
		for _, f := range fs {
			if out.fired > 0 {
				st.Fault("write-"+f.Kind, 1)
			}
		}
		if out.vacuous {
			st.Probe("fault:vacuous-continuation")
		} else if out.fired > 0 {
			st.Probe("fault:continuation-judged")
		}
		st.Mark("c16", cfgKey(t.Cfg), fmt.Sprint(len(t.Ops)), locus, fs[0].Kind, fmt.Sprint(out.vacuous), fmt.Sprint(v != nil))
		if v == nil {
			return true
		}
		v.Sig = v.Sig + "@" + locus
		if seen[v.Sig] {
			return true
		}
		seen[v.Sig] = true
		pt := t.Clone()
		pt.Extra["enumerate"] = false
		pt.Extra["locus"] = locus
		pt.Faults = fs
		if st.Report != nil {
			return !st.Report(pt, v)
		}
		if first == nil {
			first = v
		}
		return true
	}
	for i := 0; i < len(lens); i++ {
		loc := faultLocus(lens, opsOf, i, t)
		if !try([]FaultSpec{{Call: i, Kind: "fail"}}, loc) {
			return first
		}
		n := lens[i]
		var js []int
		if every || n <= 48 {
			for j := 1; j < n; j++ {
				js = append(js, j)
			}
		} else {
			js = []int{1, n / 2, n - 1}
		}
		for _, j := range js {
			if !try([]FaultSpec{{Call: i, Kind: "short", N: j}}, loc) {
				return first
			}
		}
		// the error arrives together with a full count (an io.Writer may do that)
		if n > 0 && !try([]FaultSpec{{Call: i, Kind: "late"}}, loc+"+late") {
			return first
		}
		// the same outage also fails the Truncate with which the writer rolls the partial section back
		// (an EMPTY write - the data of an empty block - that fails this way gets its own locus: the
		// section is then complete on the medium although its Put failed, see D38)
		if s := t.Cfg.Store; s == "rw" || s == "sc" || s == "sw" {
			loc := loc
			if n == 0 {
				loc += "(empty)"
			}
			if !try([]FaultSpec{{Call: i, Kind: "fail", Trunc: true}}, loc+"+trunc") {
				return first
			}
			if n > 1 && !try([]FaultSpec{{Call: i, Kind: "short", N: max(1, n/2), Trunc: true}}, loc+"+trunc") {
				return first
			}
		}
	}
	// sampled two-fault plans
	r := RunRng(t.Seed, "C16", "fault2", t.Run)
	for k := 0; k < 12 && len(lens) > 2; k++ {
		a, b := r.Intn(len(lens)), r.Intn(len(lens))
		if a == b {
			continue
		}
		fs := []FaultSpec{{Call: a, Kind: "fail"}, {Call: b, Kind: "short", N: 1}}
		if !try(fs, "two:"+faultLocus(lens, opsOf, a, t)+"+"+faultLocus(lens, opsOf, b, t)) {
			return first
		}
	}
	st.Sample(map[string]any{"cfg": t.Cfg, "ops": t.Ops, "write_calls": len(lens)})
	return first
}

// faultFreeWrites replays the fault-free session and returns each write call's
// length and owning op (0 = open, i+1 = t.Ops[i]).
func faultFreeWrites(t *Trace) (lens []int, ops []int) {
	prevFS := sim.CurrentFS
	defer func() { sim.CurrentFS = prevFS }()
	cfg := t.Cfg
	if t.Extra != nil && t.Extra["cancelled_ctx"] == true {
		putCtx = cancelledCtx()
		defer func() { putCtx = bg }()
	}
	env := NewEnv()
	sim.CurrentFS = env.FS
	stream := cfg.Store == "ss" || cfg.Store == "ds"
	var disk *sim.Disk
	var sink *sim.Sink
	var store Store
	var ss *streamStore
	setOp := func(n int) {
		if disk != nil {
			disk.CurOp = n
		}
		if sink != nil {
			sink.CurOp = n
		}
	}
	if stream {
		cfg.CarV1 = true
		sink = sim.NewSink()
		if cfg.Store == "ss" {
			w, err := storage.NewWritable(sink, cfg.RootCids(), cfg.Options()...)
			if err != nil {
				panic(&InfraError{err.Error()})
			}
			ss = &streamStore{w: w}
		} else {
			ss = &streamStore{dw: deferred.NewDeferredCarWriterForStream(sink, cfg.RootCids(), t.Cfg.Options()...)}
		}
	} else {
		disk = sim.NewDisk(env.Path)
		env.SetDisk(disk)
		var err error
		store, err = OpenStore(env, cfg)
		if err != nil {
			panic(&InfraError{err.Error()})
		}
		sim.CurrentFS = env.FS
	}
	finalized := false
	for i, op := range t.Ops {
		setOp(i + 1)
		switch op.Kind {
		case "put":
			if finalized {
				continue
			}
			b := MakeBlock(op.Blks[0])
			if ss != nil {
				ss.put(b)
			} else {
				store.Put(b)
			}
		case "putmany":
			if finalized || ss != nil {
				continue
			}
			store.PutMany(MakeBlocks(op.Blks))
		case "finalize":
			if finalized {
				continue
			}
			if ss != nil {
				ss.finalize()
			} else if t.Extra != nil && t.Extra["finalize_two_step"] == true && cfg.Store == "rw" {
				if store.FinalizeReadOnly() == nil {
					store.Close()
				}
			} else {
				store.Finalize()
			}
			finalized = true
		case "restart_clean", "restart_final":
			if finalized || ss != nil {
				continue
			}
			if op.Kind == "restart_final" {
				store.Finalize()
			} else {
				store.Discard()
			}
			ns, err := OpenStore(env, cfg)
			if err != nil {
				panic(&InfraError{"fault-free reopen failed: " + err.Error()})
			}
			sim.CurrentFS = env.FS
			store = ns
		}
	}
	if disk != nil {
		for _, e := range disk.Log {
			if e.Kind == sim.MutWrite {
				lens = append(lens, len(e.Data))
				ops = append(ops, e.Op)
			}
		}
	} else {
		for _, c := range sink.Calls {
			lens = append(lens, len(c.Data))
			ops = append(ops, c.Op)
		}
	}
	return
}

func GenC16(seed uint64, run int) *Trace {
	r := RunRng(seed, "C16", "fault", run)
	store := Pick(r, []string{"rw", "rw", "sc", "sc", "sw", "ss", "ds", "sc-nt", "sw-nt", "dw"})
	cfg := GenConfig(r, store)
	if store == "ss" || store == "ds" {
		cfg.CarV1 = false
		cfg.DataPad, cfg.IndexPad = 0, 0
	}
	t := &Trace{Prop: "C16", Engine: "fault", Seed: seed, Run: run, Cfg: cfg}
	alpha := genAlphabet(r, r.Range(1, 5), false)
	if (store == "rw" || store == "sc") && r.Chance(1, 3) {
		// prior history: an earlier session on the same file, closed by Discard or Finalize, then resumed
		for i, n := 0, r.Range(0, 3); i < n; i++ {
			t.Ops = append(t.Ops, Op{Kind: "put", Blks: []BlkSpec{Pick(r, alpha)}})
		}
		t.Ops = append(t.Ops, Op{Kind: Pick(r, []string{"restart_clean", "restart_final"})})
	}
	for i, n := 0, r.Range(1, 6); i < n; i++ {
		if store == "rw" && r.Chance(1, 3) {
			t.Ops = append(t.Ops, Op{Kind: "putmany", Blks: genBatch(r, t.Cfg, alpha, 4)})
		} else {
			t.Ops = append(t.Ops, Op{Kind: "put", Blks: []BlkSpec{Pick(r, alpha)}})
		}
	}
	t.Ops = append(t.Ops, Op{Kind: "finalize"})
	t.Extra = map[string]any{"enumerate": true, "retry": r.Bool()}
	if r.Chance(1, 6) {
		t.Extra["cancelled_ctx"] = true // every write call is made with an already cancelled context
	}
	if store == "rw" && r.Chance(1, 3) {
		t.Extra["finalize_two_step"] = true // finish with FinalizeReadOnly + Close instead of Finalize
	}
	return t
}

func init() {
	RegisterPlan("C16", func(tier string) *Plan {
		every := tier == "thorough"
		return &Plan{
			Prop: "C16", Level: "fault_enumeration", Engine: "fault",
			Runs:   tierPick(tier, 2400, 200000),
			Budget: tierPick(tier, 55*time.Second, 14*time.Minute),
			Rule: "each generated session (1-6 puts + Finalize on blockstore.ReadWrite, storage.StorageCar, storage.NewWritable over a WriterAt, storage.NewWritable over a plain stream, deferred stream writer; swarm-drawn options; optional immediate retry of a failed Put; a third of the read-write sessions start with a prior history closed by Discard/Finalize and resumed, and a reopen that reports a fault is retried) is run fault-free to census its write calls, then re-run once per single-fault plan: for EVERY write call a transient failure (0, err), and a short write (j, err) for " +
				tierPick(tier, "every j of calls <= 48 bytes and j in {1, mid, len-1} of longer ones", "every byte j") +
				", plus 12 sampled two-fault plans. Oracle: the faulted call returns an error, the failed block is not reported by Has/Get, acknowledged blocks still read back exactly, and if every later call succeeds the finalized image equals the reference encoding of exactly the acknowledged blocks. " +
				"An evaluation is one session execution under one plan; distinct non-trivial = distinct (options, session length, structural locus of the faulted call, fault kind, vacuous?, outcome)",
			Gen: func(seed uint64, run int) *Trace {
				t := GenC16(seed, run)
				if every {
					t.Extra["every_byte"] = true
				}
				return t
			},
			Exec: RunC16, Minimise: true,
			Assume: []string{"faults are transient (one call) write errors or short writes, as the property states; read errors are not injected here", "after a fault the store may refuse further calls (the final-archive clause is then vacuous and counted under probe fault:vacuous-continuation)"},
			Real:   realAll, Stub: append([]string{"output stream (sim.Sink)"}, stubDisk...), Schedule: "single task",
			ExpectProbes: []string{"fault:continuation-judged", "fault:vacuous-continuation"},
		}
	})
}
