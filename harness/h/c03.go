package h

import (
	"errors"
	"fmt"
	"io"
	"sort"
	"time"

	"github.com/ipfs/go-cid"
	carv2 "github.com/ipld/go-car/v2"
	"github.com/ipld/go-car/v2/blockstore"
	"github.com/ipld/go-car/v2/index"
	"github.com/ipld/go-car/v2/storage"
	"github.com/multiformats/go-multicodec"
	mh "github.com/multiformats/go-multihash"
	"verif/sim"
)

// C03: index soundness and completeness for every payload, codec and reader kind.

var indexProducers = []string{"generate:sorted", "generate:mhsorted", "load:sorted", "load:mhsorted", "load:insertion", "readorgen:sorted", "readorgen:mhsorted",
	// the indexes the read-only stores build for themselves over an io.ReaderAt
	"readonly:mhsorted", "openreadable:insertion"}

// produceIndex builds an index over the medium with one of the library's producers.
func produceIndex(prod string, src any, opts ReadOpts) (index.Index, error) {
	o := opts
	switch prod {
	case "generate:sorted", "readorgen:sorted", "load:sorted":
		o.IndexCodec = CodecSorted
	default:
		o.IndexCodec = CodecMhSorted
	}
	switch prod {
	case "generate:sorted", "generate:mhsorted":
		return carv2.GenerateIndex(src.(io.Reader), o.Options()...)
	case "load:sorted", "load:mhsorted":
		idx, err := index.New(multicodec.Code(o.IndexCodec))
		if err != nil {
			return nil, err
		}
		return idx, carv2.LoadIndex(idx, src.(io.Reader), o.Options()...)
	case "load:insertion":
		idx := index.NewInsertionIndex()
		return idx, carv2.LoadIndex(idx, src.(io.Reader), o.Options()...)
	case "readorgen:sorted", "readorgen:mhsorted":
		return carv2.ReadOrGenerateIndex(src.(io.ReadSeeker), o.Options()...)
	case "readonly:mhsorted":
		ro, err := blockstore.NewReadOnly(src.(io.ReaderAt), nil, o.Options()...)
		if err != nil {
			return nil, err
		}
		return ro.Index(), nil
	case "openreadable:insertion":
		rc, err := storage.OpenReadable(src.(io.ReaderAt), o.Options()...)
		if err != nil {
			return nil, err
		}
		return rc.Index(), nil
	}
	panic(&InfraError{"unknown index producer " + prod})
}

func sortedU64(xs []uint64) []uint64 {
	out := append([]uint64(nil), xs...)
	sort.Slice(out, func(i, j int) bool { return out[i] < out[j] })
	return out
}

func subsetU64(a, b []uint64) bool { // multiset a ⊆ b, both sorted
	j := 0
	for _, x := range a {
		for j < len(b) && b[j] < x {
			j++
		}
		if j >= len(b) || b[j] != x {
			return false
		}
		j++
	}
	return true
}

func equalU64(a, b []uint64) bool {
	if len(a) != len(b) {
		return false
	}
	for i := range a {
		if a[i] != b[i] {
			return false
		}
	}
	return true
}

// checkIndex compares idx with the reference scan of l.
func checkIndex(l *Layout, idx index.Index, kind string, indexesIdentity bool, probes []cid.Cid, loc string) *Violation {
	secs := l.Payload.Sections
	indexed := func(c cid.Cid) bool { return indexesIdentity || !IsIdentity(c) }
	byMhMap, byDgMap := map[string][]uint64{}, map[string][]uint64{}
	for _, s := range secs {
		if !indexed(s.Cid) {
			continue
		}
		byMhMap[string(s.Cid.Hash())] = append(byMhMap[string(s.Cid.Hash())], uint64(s.Off))
		byDgMap[string(Digest(s.Cid))] = append(byDgMap[string(Digest(s.Cid))], uint64(s.Off))
	}
	expect := func(c cid.Cid, byDigest bool) []uint64 {
		if byDigest {
			return sortedU64(byDgMap[string(Digest(c))])
		}
		return sortedU64(byMhMap[string(c.Hash())])
	}
	keys := append([]cid.Cid(nil), probes...)
	for _, s := range secs {
		keys = append(keys, s.Cid)
	}
	for _, c := range keys {
		var got []uint64
		var gerr error
		if pv := safeCall(func() {
			gerr = idx.GetAll(c, func(o uint64) bool { got = append(got, o); return true })
		}); pv != nil {
			return viol("medium/panic/index-getall@"+loc, "GetAll(%s) panicked: %v", c, pv)
		}
		got = sortedU64(got)
		byMh, byDg := expect(c, false), expect(c, true)
		var lo, hi []uint64
		switch kind {
		case "mhsorted":
			lo, hi = byMh, byMh
		case "sorted":
			lo, hi = byDg, byDg
		default: // insertion index: anything between the two readings
			lo, hi = byMh, byDg
		}
		if len(hi) == 0 {
			if !errors.Is(gerr, index.ErrNotFound) || len(got) != 0 {
				return viol("medium/index-unsound/absent-key@"+loc, "GetAll of absent key %s returned offsets %v, err %v; want ErrNotFound", c, got, gerr)
			}
			continue
		}
		if len(lo) == 0 && len(got) == 0 && errors.Is(gerr, index.ErrNotFound) {
			continue
		}
		if gerr != nil {
			return viol("medium/index-incomplete/getall-error@"+loc, "GetAll(%s) failed: %v; the payload has sections with that key at %v", c, gerr, lo)
		}
		if !subsetU64(lo, got) {
			return viol("medium/index-incomplete/missing-offset@"+loc, "GetAll(%s) = %v; sections with that key begin at %v", c, got, lo)
		}
		if !subsetU64(got, hi) {
			return viol("medium/index-unsound/wrong-offset@"+loc, "GetAll(%s) = %v; only %v are offsets of sections with that key", c, got, hi)
		}
		if first, ferr := index.GetFirst(idx, c); ferr != nil || !subsetU64([]uint64{first}, hi) {
			return viol("medium/index-unsound/getfirst@"+loc, "GetFirst(%s) = %d,%v; not among %v", c, first, ferr, hi)
		}
	}
	if it, ok := idx.(index.IterableIndex); ok {
		var got, want []string
		if err := it.ForEach(func(m mh.Multihash, off uint64) error {
			got = append(got, fmt.Sprintf("%x@%d", []byte(m), off))
			return nil
		}); err != nil {
			return viol("medium/index-incomplete/foreach-error@"+loc, "ForEach failed: %v", err)
		}
		for _, s := range secs {
			if indexed(s.Cid) {
				want = append(want, fmt.Sprintf("%x@%d", []byte(s.Cid.Hash()), s.Off))
			}
		}
		sort.Strings(got)
		sort.Strings(want)
		if !sameStrings(got, want) {
			return viol("medium/index-unsound/foreach@"+loc, "ForEach yields %d records, the payload has %d indexed sections (first difference among %v vs %v)", len(got), len(want), trunc(got), trunc(want))
		}
	}
	return nil
}

func trunc(xs []string) []string {
	if len(xs) > 4 {
		return xs[:4]
	}
	return xs
}

func runC03One(l *Layout, prod, profile string, del sim.Delivery, opts ReadOpts, probes []cid.Cid) *Violation {
	kind := prod[len(prod)-len("sorted"):]
	switch {
	case len(prod) > 9 && prod[len(prod)-9:] == "insertion":
		kind = "insertion"
	case len(prod) > 8 && prod[len(prod)-8:] == "mhsorted":
		kind = "mhsorted"
	default:
		kind = "sorted"
	}
	seek := "stream"
	if sim.IsSeekable(profile) {
		seek = "seekable"
	}
	if profile == sim.ProfA {
		seek = "readerat"
	}
	loc := fmt.Sprintf("%s/v%d/%s", prod, map[bool]int{false: 1, true: 2}[l.Spec.V2], seek)
	src, core := sim.NewSource(l.Image, profile, del)
	core.Budget = srcBudget(len(l.Image)) * 4
	var idx index.Index
	var err error
	if pv := safeCall(func() { idx, err = produceIndex(prod, src, opts) }); pv != nil {
		if be, ok := pv.(sim.BudgetExceeded); ok {
			return viol("medium/nontermination/index@"+loc, "index generation made no progress: %v", be)
		}
		return viol("medium/panic/index@"+loc, "index generation panicked: %v", pv)
	}
	indexesIdentity := opts.StoreID
	embedded := false
	usesEmbedded := prod[:9] == "readorgen" || prod == "readonly:mhsorted" || prod == "openreadable:insertion"
	if usesEmbedded && l.Spec.V2 && l.Spec.IndexCodec != 0 {
		// the embedded index is returned as is: its codec and identity policy are the file's
		embedded = true
		indexesIdentity = l.Spec.FullyIdx
		if l.Spec.IndexCodec == CodecSorted {
			kind = "sorted"
		} else {
			kind = "mhsorted"
		}
	}
	// an indexed CID longer than the limit must be refused with ErrCidTooLarge
	if !embedded {
		lim := orDefault(opts.MaxIdxCid, 2048)
		for _, s := range l.Payload.Sections {
			if (indexesIdentity || !IsIdentity(s.Cid)) && uint64(s.CidLen) > lim {
				var tl *carv2.ErrCidTooLarge
				if err == nil || !errors.As(err, &tl) {
					return viol("medium/index-unsound/cid-too-large@"+loc, "payload has a %d-byte CID over the %d-byte limit but index generation returned %v", s.CidLen, lim, err)
				}
				return nil
			}
		}
	}
	if err != nil {
		return viol("medium/valid-rejected/index@"+loc, "index generation failed on a valid archive: %v", err)
	}
	return checkIndex(l, idx, kind, indexesIdentity, probes, loc)
}

func RunC03(t *Trace, st *Stats) *Violation {
	ms := t.Medium
	l := BuildImage(ms.Image)
	opts := ms.Opts
	if ms.Image.NullPad > 0 {
		opts.ZeroEOF = true
	}
	// probe keys: near misses of the stored blocks and a fresh CID
	var probeSpecs []BlkSpec
	nmOf := ms.Image.Blocks
	if len(nmOf) > 5000 {
		nmOf = nmOf[:50] // a very long archive: near-miss probes for its first blocks only
	}
	for _, s := range nearMisses(nmOf) {
		probeSpecs = append(probeSpecs, s)
	}
	probeSpecs = append(probeSpecs, BlkSpec{"raw", 777, 5}, BlkSpec{"t20", 777, 5}, BlkSpec{"id", 777, 4})
	var probes []cid.Cid
	for _, s := range probeSpecs {
		probes = append(probes, MakeBlock(s).Cid)
	}
	if !ms.All {
		st.Evals++
		return runC03One(l, ms.Entry, ms.Profile, ms.Del, opts, probes)
	}
	r := RunRng(t.Seed, "C03", "medium-enum", t.Run)
	var first *Violation
	seen := map[string]bool{}
	for _, prod := range indexProducers {
		profs := readerProfiles
		if prod == "readonly:mhsorted" || prod == "openreadable:insertion" {
			profs = []string{sim.ProfA, sim.ProfRSA, sim.ProfRSAB}
		}
		dels := []sim.Delivery{{ErrAt: -1}, GenDelivery(r)}
		if prod == "readonly:mhsorted" || prod == "openreadable:insertion" {
			// these take an io.ReaderAt: the Read position a caller left the value at (after sniffing the
			// version, say) is none of their business
			dels = append(dels, sim.Delivery{ErrAt: -1, StartPos: Pick(r, []int64{1, 11, int64(len(l.Image) / 2), int64(len(l.Image))})})
		}
		if len(l.Payload.Sections) > 1000 {
			// a very long archive: one stream-like and one seekable profile, one delivery
			if len(profs) > 3 {
				profs = []string{profs[0], profs[3]}
			} else {
				profs = profs[:1]
			}
			dels = dels[1:]
		}
		for _, prof := range profs {
			if prod[:9] == "readorgen" && !sim.IsSeekable(prof) {
				continue
			}
			for di, del := range dels {
				st.Evals++
				st.Steps++
				st.Fault("delivery:"+prof, 1)
				v := runC03One(l, prod, prof, del, opts, probes)
				st.Mark("c03", fmt.Sprint(ms.Image.V2, ms.Image.DataPad, ms.Image.NullPad, len(ms.Image.Blocks), opts.StoreID, opts.MaxIdxCid), prod, prof, fmt.Sprint(di))
				if v == nil || seen[v.Sig] {
					continue
				}
				seen[v.Sig] = true
				pt := t.Clone()
				pt.Medium.All = false
				pt.Medium.Entry, pt.Medium.Profile, pt.Medium.Del = prod, prof, del
				if st.Report != nil {
					if st.Report(pt, v) {
						return first
					}
				} else if first == nil {
					first = v
				}
			}
		}
	}
	st.Sample(map[string]any{"image": ms.Image, "opts": opts, "producers": indexProducers, "profiles": readerProfiles})
	return first
}

func GenC03(seed uint64, run int) *Trace {
	r := RunRng(seed, "C03", "medium", run)
	spec := GenImageSpec(r, 14)
	if r.Chance(1, 40) {
		LongBlocks(r, &spec)
	}
	// (an archive of more than 65536 sections - beyond a 16-bit count or a 65536-record batch - was tried
	// and dropped: with the reference oracle as it is such an image costs tens of minutes; seeded change
	// C03-w8m2 needs one and is listed as not detected)
	if r.Chance(1, 1500) {
		// more sections than any batch size used internally (4096)
		spec.Blocks = spec.Blocks[:0]
		for i, n := 0, Pick(r, []int{4097, 4500, 8200}); i < n; i++ {
			spec.Blocks = append(spec.Blocks, BlkSpec{Kind: "raw", Seed: uint64(3000 + i), Size: i % 3})
		}
		spec.NullPad = 0
	}
	if r.Chance(1, 10) {
		spec.HeaderEnc = r.Range(1, 2) // a header that is accepted but not what the library itself writes
	}
	opts := ReadOpts{StoreID: r.Chance(1, 2)}
	if r.Chance(1, 5) {
		opts.MaxIdxCid = Pick(r, []uint64{40, 40, 40, 40, 1 << 63, ^uint64(0)})
	}
	if r.Chance(1, 12) {
		// a family of keys of one width that agree in their leading bytes (look-alike inline blocks, made-up
		// digests): whatever orders or searches index entries must look at whole digests
		kind := Pick(r, []string{"idp", "fam"})
		size := r.Range(1, 12)
		at := r.Intn(len(spec.Blocks) + 1)
		var fam []BlkSpec
		for i, n := 0, r.Range(3, 8); i < n; i++ {
			fam = append(fam, BlkSpec{Kind: kind, Seed: uint64(500 + r.Intn(40)), Size: size})
		}
		spec.Blocks = append(spec.Blocks[:at:at], append(fam, spec.Blocks[at:]...)...)
		if kind == "idp" {
			opts.StoreID = true
		}
	}
	return &Trace{Prop: "C03", Engine: "medium", Seed: seed, Run: run, Medium: &MediumSpec{Image: spec, All: true, Opts: opts, Del: sim.Delivery{ErrAt: -1}}}
}

func init() {
	RegisterPlan("C03", func(tier string) *Plan {
		return &Plan{
			Prop: "C03", Level: "exploration", Engine: "medium",
			Runs:   tierPick(tier, 8000, 1000000),
			Budget: tierPick(tier, 50*time.Second, 12*time.Minute),
			Rule: "valid CARv1/CARv2 images (collision alphabet: equal multihash under several codecs and CIDv0, equal digest under different hash codes, identity, truncated digests, duplicates; data padding; null padding with ZeroLengthSectionAsEOF) built by the reference codec; for each image every index producer (GenerateIndex and LoadIndex into car-index-sorted, car-multihash-index-sorted and the insertion index; ReadOrGenerateIndex; the indexes blockstore.NewReadOnly and storage.OpenReadable build over an io.ReaderAt) x every capability profile of the source x 2 delivery plans, x StoreIdentityCIDs x MaxIndexCidSize. Oracle: GetAll of every section CID and of near-miss/fresh probe CIDs equals the reference scan's offset set for that key (multihash / digest; anything between for the insertion index), ErrNotFound for absent keys, ForEach equals the section multiset, over-long CID -> ErrCidTooLarge. " +
				"An evaluation is one (image, producer, profile, delivery); distinct non-trivial = distinct (image shape+options, producer, profile, delivery class)",
			Gen: GenC03, Exec: RunC03, Minimise: true, ExtraShrink: shrinkMedium,
			Assume: []string{"the insertion index may answer by multihash or by digest (the statement does not say which): any offset set between the two is accepted"},
			Real:   realAll, Stub: stubMedium, Schedule: "single task; the simulator owns the source's capabilities and delivery",
		}
	})
}
