package h

import "time"

var realAll = []string{"go-car/v2 (root package, blockstore, storage, storage/deferred, index, internal/*) compiled from the current /repo/v2 tree", "go-car root module and cmd/car/lib from /repo", "go-cid, go-multihash, GoLLRB, cbor, varint"}
var stubDisk = []string{"disk / file system (sim.Disk, sim.FS, sim.File substituted for os.File / os.OpenFile)", "mutexes (sim.Mutex/RWMutex, pass-through: no scheduler installed in this engine)"}

func tierPick[T any](tier string, quick, thorough T) T {
	if tier == "thorough" {
		return thorough
	}
	return quick
}

func init() {
	RegisterPlan("C04", func(tier string) *Plan {
		L := tierPick(tier, 3, 4)
		return &Plan{
			Prop: "C04", Level: "exploration", Engine: "session",
			Runs:   tierPick(tier, 60000, 3000000),
			Exh:    ExhC04Count(L),
			ExhGen: func(i int) *Trace { return ExhC04(i, L) },
			Budget: tierPick(tier, 50*time.Second, 12*time.Minute),
			Rule: "operation histories on blockstore.ReadWrite / storage.StorageCar over a simulated disk, each result compared with a reference map model after every step (plus an audit of Has/Get/GetSize over the whole block alphabet and near-miss keys after every mutating call, and a frozen-mutation-log check after close); " +
				"exhaustive part: every history of length <= L over a 5-block collision alphabet and all typestate operations under 16 option sets per store kind; seeded part: random histories to length 30 with swarm-drawn options (incl. ZeroLengthSectionAsEOF and, 1 in 10, a 200-byte read-side section limit); a third of them contain restarts (Discard/Finalize + reopen of the same file) after which the model must still hold. " +
				"An execution is non-trivial when the model's content or typestate changed at least once; distinct = distinct hash of (options, op/typestate sequence, number of stored sections)",
			Gen: GenC04, Exec: RunSessionC04, Minimise: true,
			Assume: []string{"the reference model's reading of the option documentation (DESIGN.md section 4/C04), including the listed sets of permitted answers", "go-cid / go-multihash compute CIDs correctly"},
			Real:   realAll, Stub: stubDisk, Schedule: "single task (no concurrency in this property)",
		}
	})
	RegisterPlan("C05", func(tier string) *Plan {
		return &Plan{
			Prop: "C05", Level: "exploration", Engine: "session",
			Runs:   tierPick(tier, 120000, 6000000),
			Budget: tierPick(tier, 50*time.Second, 12*time.Minute),
			Rule: "put histories ending in Finalize on four writers (blockstore.ReadWrite, storage.NewReadableWritable, storage.NewWritable, deferred path writer) over a simulated disk under swarm-drawn options; the finalized image is decoded by an independent reference codec and compared byte-exactly with the reference encoding of the model's sections, the index record multiset with the expected one, then Inspect(true) and (every 4th run, real temp file) lib.VerifyCar must accept. " +
				"Non-trivial = at least one section stored; distinct = distinct (options, section count, image length)",
			Gen: GenC05, Exec: RunSessionC05, Minimise: true,
			Assume: []string{"reference codec written from the CARv1/CARv2/index specifications", "CLI writers (create/filter/get-dag) are not covered: no seam"},
			Real:   realAll, Stub: stubDisk, Schedule: "single task",
			ExpectProbes: []string{"c05:verifier-applicable", "c05:store=rw", "c05:store=sc", "c05:store=sw", "c05:store=dw"},
		}
	})
}
