package h

import (
	"bytes"
	"encoding/binary"
	"errors"
	"fmt"
	"sort"

	"github.com/ipfs/go-cid"
	mh "github.com/multiformats/go-multihash"
)

// This file is the reference codec: CARv1, CARv2 and the two sorted index
// formats written from the specifications, sharing with go-car only go-cid and
// go-multihash. It produces expected bytes and locates structure in VALID
// images. It is never an acceptance oracle on corrupted input.

var RefPragma = []byte{0x0a, 0xa1, 0x67, 'v', 'e', 'r', 's', 'i', 'o', 'n', 0x02}

const (
	RefPragmaSize = 11
	RefHeaderSize = 40
	CodecSorted   = 0x0400
	CodecMhSorted = 0x0401
)

func PutUvarint(x uint64) []byte {
	var out []byte
	for x >= 0x80 {
		out = append(out, byte(x)|0x80)
		x >>= 7
	}
	return append(out, byte(x))
}

func UvarintSize(x uint64) int { return len(PutUvarint(x)) }

var errVarint = errors.New("ref: bad varint")

// ReadUvarint decodes a minimal LEB128 varint (at most 9 bytes, as in the
// multiformats unsigned-varint spec).
func ReadUvarint(b []byte) (uint64, int, error) {
	var x uint64
	var s uint
	for i := 0; i < len(b); i++ {
		c := b[i]
		if i == 9 {
			return 0, 0, errVarint
		}
		if c < 0x80 {
			if c == 0 && i > 0 {
				return 0, 0, errVarint // not minimal
			}
			return x | uint64(c)<<s, i + 1, nil
		}
		x |= uint64(c&0x7f) << s
		s += 7
	}
	return 0, 0, errVarint
}

func cborHead(major byte, n uint64) []byte {
	m := major << 5
	switch {
	case n < 24:
		return []byte{m | byte(n)}
	case n < 1<<8:
		return []byte{m | 24, byte(n)}
	case n < 1<<16:
		return []byte{m | 25, byte(n >> 8), byte(n)}
	case n < 1<<32:
		return []byte{m | 26, byte(n >> 24), byte(n >> 16), byte(n >> 8), byte(n)}
	default:
		b := make([]byte, 9)
		b[0] = m | 27
		binary.BigEndian.PutUint64(b[1:], n)
		return b
	}
}

// EncodeV1HeaderBody is the dag-cbor map {roots:[...], version:v} (keys in
// canonical order: shorter first).
func EncodeV1HeaderBody(roots []cid.Cid, version uint64) []byte {
	var b []byte
	b = append(b, 0xa2)
	b = append(b, 0x65)
	b = append(b, "roots"...)
	b = append(b, cborHead(4, uint64(len(roots)))...)
	for _, r := range roots {
		cb := r.Bytes()
		b = append(b, 0xd8, 0x2a)
		b = append(b, cborHead(2, uint64(len(cb)+1))...)
		b = append(b, 0x00)
		b = append(b, cb...)
	}
	b = append(b, 0x67)
	b = append(b, "version"...)
	b = append(b, cborHead(0, version)...)
	return b
}

// EncodeV1Header is the length-prefixed CARv1 header.
func EncodeV1Header(roots []cid.Cid) []byte {
	body := EncodeV1HeaderBody(roots, 1)
	return append(PutUvarint(uint64(len(body))), body...)
}

// EncodeSection is varint(len(cid)+len(data)) cid data.
func EncodeSection(c cid.Cid, data []byte) []byte {
	cb := c.Bytes()
	out := PutUvarint(uint64(len(cb) + len(data)))
	out = append(out, cb...)
	return append(out, data...)
}

// EncodePayload is the CARv1 for roots and blocks in order.
func EncodePayload(roots []cid.Cid, blks []Blk) []byte {
	out := EncodeV1Header(roots)
	for _, b := range blks {
		out = append(out, EncodeSection(b.Cid, b.Data)...)
	}
	return out
}

// RefSection is one located section of a valid payload.
type RefSection struct {
	Off     int64 // payload-relative offset of the length varint
	LenSize int
	CidLen  int
	DataLen int
	Cid     cid.Cid
	Data    []byte
}

func (s RefSection) End() int64 { return s.Off + int64(s.LenSize+s.CidLen+s.DataLen) }

// RefPayload is a decoded CARv1.
type RefPayload struct {
	HeaderLen int // including its varint
	Version   uint64
	Roots     []cid.Cid
	Sections  []RefSection
	// Consumed is how many bytes were parsed (== len(input) unless zeroEOF stopped early).
	Consumed int64
}

// decodeV1HeaderBody parses exactly the shape EncodeV1HeaderBody emits, with
// either key order tolerated; roots must be an array.
func decodeV1HeaderBody(b []byte) (roots []cid.Cid, version uint64, hasRoots bool, err error) {
	p := 0
	need := func(n int) error {
		if p+n > len(b) {
			return errors.New("ref: short header")
		}
		return nil
	}
	readHead := func() (major byte, n uint64, err error) {
		if err = need(1); err != nil {
			return
		}
		c := b[p]
		p++
		major = c >> 5
		ai := c & 0x1f
		switch {
		case ai < 24:
			n = uint64(ai)
		case ai == 24:
			if err = need(1); err != nil {
				return
			}
			n = uint64(b[p])
			p++
		case ai == 25:
			if err = need(2); err != nil {
				return
			}
			n = uint64(binary.BigEndian.Uint16(b[p:]))
			p += 2
		case ai == 26:
			if err = need(4); err != nil {
				return
			}
			n = uint64(binary.BigEndian.Uint32(b[p:]))
			p += 4
		case ai == 27:
			if err = need(8); err != nil {
				return
			}
			n = binary.BigEndian.Uint64(b[p:])
			p += 8
		default:
			err = errors.New("ref: indefinite cbor")
		}
		return
	}
	mj, n, err := readHead()
	if err != nil {
		return
	}
	if mj != 5 {
		err = errors.New("ref: header is not a map")
		return
	}
	for i := uint64(0); i < n; i++ {
		var kl uint64
		mj, kl, err = readHead()
		if err != nil {
			return
		}
		if mj != 3 || need(int(kl)) != nil {
			err = errors.New("ref: bad key")
			return
		}
		key := string(b[p : p+int(kl)])
		p += int(kl)
		switch key {
		case "roots":
			var cnt uint64
			mj, cnt, err = readHead()
			if err != nil {
				return
			}
			if mj != 4 {
				err = errors.New("ref: roots is not an array")
				return
			}
			hasRoots = true
			roots = []cid.Cid{}
			for j := uint64(0); j < cnt; j++ {
				var tag, bl uint64
				mj, tag, err = readHead()
				if err != nil {
					return
				}
				if mj != 6 || tag != 42 {
					err = errors.New("ref: root is not tag 42")
					return
				}
				mj, bl, err = readHead()
				if err != nil {
					return
				}
				if mj != 2 || bl < 1 || need(int(bl)) != nil || b[p] != 0 {
					err = errors.New("ref: bad cid bytes")
					return
				}
				var c cid.Cid
				c, err = cid.Cast(b[p+1 : p+int(bl)])
				if err != nil {
					return
				}
				p += int(bl)
				roots = append(roots, c)
			}
		case "version":
			mj, version, err = readHead()
			if err != nil {
				return
			}
			if mj != 0 {
				err = errors.New("ref: version is not uint")
				return
			}
		default:
			err = fmt.Errorf("ref: unknown key %q", key)
			return
		}
	}
	if p != len(b) {
		err = errors.New("ref: trailing bytes in header")
	}
	return
}

// DecodePayload parses a VALID CARv1. zeroEOF makes a zero length varint end
// the payload (null padding).
func DecodePayload(b []byte, zeroEOF bool) (*RefPayload, error) {
	hl, n, err := ReadUvarint(b)
	if err != nil {
		return nil, fmt.Errorf("ref: header length: %w", err)
	}
	if uint64(len(b)-n) < hl {
		return nil, errors.New("ref: header truncated")
	}
	roots, ver, hasRoots, err := decodeV1HeaderBody(b[n : n+int(hl)])
	if err != nil {
		return nil, err
	}
	if !hasRoots {
		return nil, errors.New("ref: header has no roots array")
	}
	out := &RefPayload{HeaderLen: n + int(hl), Version: ver, Roots: roots}
	p := int64(out.HeaderLen)
	for p < int64(len(b)) {
		sl, ln, err := ReadUvarint(b[p:])
		if err != nil {
			return nil, fmt.Errorf("ref: section length at %d: %w", p, err)
		}
		if sl == 0 {
			if zeroEOF {
				break
			}
			return nil, fmt.Errorf("ref: zero-length section at %d", p)
		}
		if uint64(int64(len(b))-p-int64(ln)) < sl {
			return nil, fmt.Errorf("ref: section at %d overruns payload", p)
		}
		body := b[p+int64(ln) : p+int64(ln)+int64(sl)]
		cl, c, err := cid.CidFromBytes(body)
		if err != nil {
			return nil, fmt.Errorf("ref: cid at %d: %w", p, err)
		}
		out.Sections = append(out.Sections, RefSection{Off: p, LenSize: ln, CidLen: cl, DataLen: int(sl) - cl, Cid: c, Data: body[cl:]})
		p += int64(ln) + int64(sl)
	}
	out.Consumed = p
	return out, nil
}

// RefV2Header is the 40-byte CARv2 header.
type RefV2Header struct {
	CharHi, CharLo                    uint64
	DataOffset, DataSize, IndexOffset uint64
}

func (h RefV2Header) FullyIndexed() bool { return h.CharHi&0x80 != 0 }

func (h RefV2Header) Encode() []byte {
	b := make([]byte, 40)
	binary.LittleEndian.PutUint64(b[0:], h.CharHi)
	binary.LittleEndian.PutUint64(b[8:], h.CharLo)
	binary.LittleEndian.PutUint64(b[16:], h.DataOffset)
	binary.LittleEndian.PutUint64(b[24:], h.DataSize)
	binary.LittleEndian.PutUint64(b[32:], h.IndexOffset)
	return b
}

func DecodeV2Header(b []byte) RefV2Header {
	return RefV2Header{
		CharHi: binary.LittleEndian.Uint64(b[0:]), CharLo: binary.LittleEndian.Uint64(b[8:]),
		DataOffset: binary.LittleEndian.Uint64(b[16:]), DataSize: binary.LittleEndian.Uint64(b[24:]),
		IndexOffset: binary.LittleEndian.Uint64(b[32:]),
	}
}

// IdxRec is one index record: Code is the multihash code for the multihash
// sorted codec and 0 for the digest-only codec.
type IdxRec struct {
	Code   uint64
	Digest []byte
	Off    uint64
}

func (r IdxRec) key() string { return fmt.Sprintf("%x|%x|%d", r.Code, r.Digest, r.Off) }

// RefIndex is a decoded sorted index.
type RefIndex struct {
	Codec uint64
	Recs  []IdxRec
	Len   int // bytes consumed including the codec varint
}

func decodeMultiWidth(b []byte, code uint64) ([]IdxRec, int, error) {
	if len(b) < 4 {
		return nil, 0, errors.New("ref: index bucket count truncated")
	}
	cnt := int32(binary.LittleEndian.Uint32(b))
	if cnt < 0 {
		return nil, 0, errors.New("ref: negative bucket count")
	}
	p := 4
	var recs []IdxRec
	lastW := uint32(0)
	for i := int32(0); i < cnt; i++ {
		if len(b)-p < 12 {
			return nil, 0, errors.New("ref: index bucket header truncated")
		}
		w := binary.LittleEndian.Uint32(b[p:])
		dl := binary.LittleEndian.Uint64(b[p+4:])
		p += 12
		if w < 8 || dl%uint64(w) != 0 || uint64(len(b)-p) < dl {
			return nil, 0, fmt.Errorf("ref: bad bucket width=%d len=%d", w, dl)
		}
		if i > 0 && w <= lastW {
			return nil, 0, errors.New("ref: buckets not ascending by width")
		}
		lastW = w
		var prev []byte
		for q := 0; q < int(dl); q += int(w) {
			rec := b[p+q : p+q+int(w)]
			dg := rec[:w-8]
			if prev != nil && bytes.Compare(prev, dg) > 0 {
				return nil, 0, errors.New("ref: bucket entries not ascending by digest")
			}
			prev = dg
			recs = append(recs, IdxRec{Code: code, Digest: append([]byte(nil), dg...), Off: binary.LittleEndian.Uint64(rec[w-8:])})
		}
		p += int(dl)
	}
	return recs, p, nil
}

// DecodeIndex parses a well-formed serialized index (codec varint included)
// and checks the ordering rules of the format.
func DecodeIndex(b []byte) (*RefIndex, error) {
	codec, n, err := ReadUvarint(b)
	if err != nil {
		return nil, fmt.Errorf("ref: index codec: %w", err)
	}
	out := &RefIndex{Codec: codec}
	switch codec {
	case CodecSorted:
		recs, m, err := decodeMultiWidth(b[n:], 0)
		if err != nil {
			return nil, err
		}
		out.Recs, out.Len = recs, n+m
	case CodecMhSorted:
		if len(b)-n < 4 {
			return nil, errors.New("ref: mh index count truncated")
		}
		cnt := int32(binary.LittleEndian.Uint32(b[n:]))
		if cnt < 0 {
			return nil, errors.New("ref: negative code count")
		}
		p := n + 4
		var last uint64
		for i := int32(0); i < cnt; i++ {
			if len(b)-p < 8 {
				return nil, errors.New("ref: mh code truncated")
			}
			code := binary.LittleEndian.Uint64(b[p:])
			if i > 0 && code <= last {
				return nil, errors.New("ref: codes not ascending")
			}
			last = code
			p += 8
			recs, m, err := decodeMultiWidth(b[p:], code)
			if err != nil {
				return nil, err
			}
			out.Recs = append(out.Recs, recs...)
			p += m
		}
		out.Len = p
	default:
		return nil, fmt.Errorf("ref: unknown index codec %#x", codec)
	}
	return out, nil
}

// ExpectedIndexRecs is what an index over sections must hold.
func ExpectedIndexRecs(secs []RefSection, codec uint64, storeIdentity bool) []IdxRec {
	var out []IdxRec
	for _, s := range secs {
		d, err := mh.Decode(s.Cid.Hash())
		if err != nil {
			panic(err)
		}
		if d.Code == mh.IDENTITY && !storeIdentity {
			continue
		}
		code := d.Code
		if codec == CodecSorted {
			code = 0
		}
		out = append(out, IdxRec{Code: code, Digest: d.Digest, Off: uint64(s.Off)})
	}
	return out
}

// SameRecs compares two record lists as multisets; returns a description of the first difference.
func SameRecs(got, want []IdxRec) string {
	a := make([]string, len(got))
	for i, r := range got {
		a[i] = r.key()
	}
	b := make([]string, len(want))
	for i, r := range want {
		b[i] = r.key()
	}
	sort.Strings(a)
	sort.Strings(b)
	if len(a) != len(b) {
		return fmt.Sprintf("index has %d records, want %d", len(a), len(b))
	}
	for i := range a {
		if a[i] != b[i] {
			return fmt.Sprintf("index record %s, want %s", a[i], b[i])
		}
	}
	return ""
}
