package h

// genAlphabet draws a small block alphabet with built-in collisions.
func genAlphabet(r *Rng, n int, big bool) []BlkSpec {
	var out []BlkSpec
	for len(out) < n {
		if len(out) > 0 && r.Chance(2, 5) {
			// collide with an earlier block: same bytes, other kind
			b := out[r.Intn(len(out))]
			nm := nearMisses([]BlkSpec{b})
			out = append(out, nm[r.Intn(len(nm))])
			continue
		}
		out = append(out, GenSpec(r, 4, big))
	}
	return out
}

func storeKindFor(r *Rng) string {
	if r.Bool() {
		return "rw"
	}
	return "sc"
}

// soleSkipOrRej reports whether b would get the "skip or reject" verdict (an
// over-long identity CID with identity storage off), which must not share a batch.
func soleSkipOrRej(cfg Config, s BlkSpec) bool { return false }

func genBatch(r *Rng, cfg Config, alpha []BlkSpec, max int) []BlkSpec {
	n := r.Range(1, max)
	var out []BlkSpec
	for i := 0; i < n; i++ {
		s := Pick(r, alpha)
		if soleSkipOrRej(cfg, s) {
			if len(out) == 0 {
				return []BlkSpec{s}
			}
			continue
		}
		out = append(out, s)
	}
	if len(out) == 0 {
		out = append(out, alpha[0])
	}
	return out
}

// GenC04 draws one history.
func GenC04(seed uint64, run int) *Trace {
	r := RunRng(seed, "C04", "session", run)
	cfg := GenConfig(r, storeKindFor(r))
	if r.Chance(1, 10) {
		cfg.MaxSection = 200 // a small read-side section limit on a writable store
	}
	if cfg.Store == "rw" {
		cfg.SameHandle = r.Chance(1, 4) // the caller owns the file handle (OpenReadWriteFile): it stays open after Discard/Finalize
	}
	t := &Trace{Prop: "C04", Engine: "session", Seed: seed, Run: run, Cfg: cfg}
	alpha := genAlphabet(r, r.Range(2, 6), r.Chance(1, 8))
	n := r.Range(1, 30)
	if r.Chance(1, 4) {
		n = r.Range(1, 6)
	}
	closedBias := false
	restarts := r.Chance(1, 3) // a third of the histories contain restarts (close + reopen of the same file)
	for i := 0; i < n; i++ {
		var op Op
		if restarts && !closedBias && r.Chance(1, 8) {
			rop := Op{Kind: Pick(r, []string{"restart_clean", "restart_final"})}
			if r.Chance(1, 3) {
				rop.Arg = Pick(r, []int{1, 1, 2}) // reopen with the same roots in another order / with a tighter index CID limit
			}
			t.Ops = append(t.Ops, rop)
			continue
		}
		v := r.Intn(100)
		if closedBias {
			v = r.Intn(140) // more typestate ops once something closed
		}
		switch {
		case v < 30:
			op = Op{Kind: "put", Blks: []BlkSpec{Pick(r, alpha)}}
		case v < 40:
			op = Op{Kind: "putmany", Blks: genBatch(r, cfg, alpha, 4)}
		case v < 55:
			op = Op{Kind: "has", Blks: []BlkSpec{Pick(r, alpha)}}
		case v < 70:
			op = Op{Kind: "get", Blks: []BlkSpec{Pick(r, alpha)}}
		case v < 78:
			op = Op{Kind: "getsize", Blks: []BlkSpec{Pick(r, alpha)}}
		case v < 83:
			op = Op{Kind: "keys"}
		case v < 86:
			op = Op{Kind: "roots"}
		case v < 91:
			op = Op{Kind: "finalize"}
			closedBias = true
		case v < 94:
			op = Op{Kind: "finalize_ro"}
			closedBias = true
		case v < 97:
			op = Op{Kind: "close"}
		case v < 100:
			op = Op{Kind: "discard"}
			closedBias = true
		case v < 110:
			op = Op{Kind: "finalize"}
		case v < 120:
			op = Op{Kind: "close"}
		case v < 130:
			op = Op{Kind: "finalize_ro"}
		default:
			op = Op{Kind: "discard"}
		}
		if cfg.Store == "sc" {
			switch op.Kind {
			case "keys", "finalize_ro", "close", "discard":
				op = Op{Kind: "finalize"}
				closedBias = true
			}
		}
		t.Ops = append(t.Ops, op)
	}
	return t
}

// C04 exhaustive short histories: every sequence of length <= L over a fixed op set and a 4-block alphabet.
var exhAlpha = []BlkSpec{{"raw", 1, 5}, {"cbor", 1, 5}, {"id", 2, 3}, {"dbl", 3, 8}, {"shasha", 3, 8}}

func exhOps(store string) []Op {
	var ops []Op
	for _, b := range exhAlpha {
		ops = append(ops, Op{Kind: "put", Blks: []BlkSpec{b}})
	}
	ops = append(ops, Op{Kind: "putmany", Blks: []BlkSpec{exhAlpha[0], exhAlpha[1], exhAlpha[0]}})
	ops = append(ops, Op{Kind: "finalize"})
	if store == "rw" {
		ops = append(ops, Op{Kind: "finalize_ro"}, Op{Kind: "close"}, Op{Kind: "discard"})
	}
	return ops
}

// ExhConfigs are the option sets the exhaustive enumeration runs under.
func exhConfigs() []Config {
	var out []Config
	for _, store := range []string{"rw", "sc"} {
		for mask := 0; mask < 16; mask++ {
			c := Config{Store: store, Roots: []BlkSpec{{"raw", 1, 5}}}
			c.StoreID = mask&1 != 0
			c.WholeCIDs = mask&2 != 0
			c.AllowDup = mask&4 != 0
			c.CarV1 = mask&8 != 0
			out = append(out, c)
		}
	}
	return out
}

// ExhC04Count returns the number of exhaustive histories of length <= L.
func ExhC04Count(L int) int {
	total := 0
	for _, c := range exhConfigs() {
		k := len(exhOps(c.Store))
		p := 1
		for l := 1; l <= L; l++ {
			p *= k
			total += p
		}
	}
	return total
}

// ExhC04 returns the idx-th exhaustive history (mixed-radix decoding).
func ExhC04(idx int, L int) *Trace {
	for _, c := range exhConfigs() {
		ops := exhOps(c.Store)
		k := len(ops)
		p := 1
		for l := 1; l <= L; l++ {
			p *= k
			if idx < p {
				t := &Trace{Prop: "C04", Engine: "session", Run: -1, Cfg: c, Extra: map[string]any{"exhaustive": true}}
				x := idx
				for i := 0; i < l; i++ {
					t.Ops = append(t.Ops, ops[x%k])
					x /= k
				}
				return t
			}
			idx -= p
		}
	}
	panic("ExhC04: index out of range")
}

// GenC05 draws a put history that ends in Finalize.
func GenC05(seed uint64, run int) *Trace {
	r := RunRng(seed, "C05", "session", run)
	store := Pick(r, []string{"rw", "sc", "sw", "dw"})
	cfg := GenConfig(r, store)
	t := &Trace{Prop: "C05", Engine: "session", Seed: seed, Run: run, Cfg: cfg}
	alpha := genAlphabet(r, r.Range(1, 8), r.Chance(1, 6))
	// sometimes make a root one of the blocks so that the verifier clause applies
	if len(cfg.Roots) > 0 && r.Chance(2, 3) {
		for i := range t.Cfg.Roots {
			t.Cfg.Roots[i] = Pick(r, alpha)
		}
	}
	n := r.Range(0, 8)
	if r.Chance(1, 6000) {
		// a long session: more stored blocks than any batch or buffer size used internally (1000, 4096, 8192)
		for i, m := 0, Pick(r, []int{1001, 4097, 4300, 8200}); i < m; i++ {
			t.Ops = append(t.Ops, Op{Kind: "put", Blks: []BlkSpec{{Kind: "raw", Seed: uint64(1000 + i), Size: i % 3}}})
		}
	}
	for i := 0; i < n; i++ {
		if r.Chance(1, 4) && store != "sw" && store != "dw" {
			t.Ops = append(t.Ops, Op{Kind: "putmany", Blks: genBatch(r, t.Cfg, alpha, 4)})
		} else {
			t.Ops = append(t.Ops, Op{Kind: "put", Blks: []BlkSpec{Pick(r, alpha)}})
		}
	}
	t.Ops = append(t.Ops, Op{Kind: "finalize"})
	return t
}
