package h

// SchedSpec is the scheduler-engine part of a trace (C08); the engine itself
// lives in package schedw because it needs testing/synctest.
type SchedSpec struct {
	Target   string `json:"target"` // rw | sc | dw
	Clients  [][]Op `json:"clients"`
	Picks    []int  `json:"picks,omitempty"` // recorded scheduling decisions (replay)
	PickSeed uint64 `json:"pick_seed"`
	MaxSteps int    `json:"max_steps,omitempty"`
	// Callbacks is the number of OnPut callbacks registered on a deferred writer before the
	// concurrent phase; each callback is a scheduling point (other tasks may run while it executes).
	Callbacks int `json:"callbacks,omitempty"`
}
