package h

import (
	"bytes"
	"fmt"
	"os"
	"path/filepath"

	"github.com/ipfs/go-cid"
	"github.com/ipld/go-car/cmd/car/lib"
	carv2 "github.com/ipld/go-car/v2"
	"github.com/ipld/go-car/v2/blockstore"
)

// ImageReport is the reference decode of a finalized CARv2/CARv1 image.
type ImageReport struct {
	V2       bool
	Header   RefV2Header
	Payload  *RefPayload
	Index    *RefIndex
	TailLen  int // bytes after the end of the index (probe only)
	PadBytes int
}

// CheckFinalImage is the C05 oracle: image must be the finalized form of
// (roots, stored) under cfg. engine prefixes the violation signature.
// exactPayload=false relaxes payload byte-equality to "well-formed and holds at
// least/at most these blocks" for the crash-continuation case (C06 promises no
// more); want/atMost are then block multisets.
func CheckFinalImage(engine string, cfg Config, roots []cid.Cid, stored []Blk, image []byte) *Violation {
	_, v := checkImage(engine, cfg, roots, stored, nil, true, image)
	return v
}

func checkImage(engine string, cfg Config, roots []cid.Cid, stored []Blk, atMost []Blk, exact bool, image []byte) (*ImageReport, *Violation) {
	rep := &ImageReport{}
	want := EncodePayload(roots, stored)
	var payload []byte
	if cfg.CarV1 {
		payload = image
	} else {
		rep.V2 = true
		if len(image) < RefPragmaSize+RefHeaderSize {
			return rep, viol(engine+"/archive-malformed/short", "finalized file has only %d bytes", len(image))
		}
		if !bytes.Equal(image[:RefPragmaSize], RefPragma) {
			return rep, viol(engine+"/archive-malformed/pragma", "file does not start with the CARv2 pragma: %x", image[:RefPragmaSize])
		}
		h := DecodeV2Header(image[RefPragmaSize : RefPragmaSize+RefHeaderSize])
		rep.Header = h
		if h.DataOffset != 51+cfg.DataPad {
			return rep, viol(engine+"/archive-malformed/data-offset", "DataOffset=%d, want 51+%d", h.DataOffset, cfg.DataPad)
		}
		if exact && h.DataSize != uint64(len(want)) {
			return rep, viol(engine+"/archive-malformed/data-size", "DataSize=%d, want exact payload length %d", h.DataSize, len(want))
		}
		if h.DataOffset+h.DataSize > uint64(len(image)) {
			return rep, viol(engine+"/archive-malformed/data-size", "payload [%d,+%d) overruns the %d-byte file", h.DataOffset, h.DataSize, len(image))
		}
		if h.IndexOffset != h.DataOffset+h.DataSize+cfg.IndexPad {
			return rep, viol(engine+"/archive-malformed/index-offset", "IndexOffset=%d, want %d+%d+%d", h.IndexOffset, h.DataOffset, h.DataSize, cfg.IndexPad)
		}
		if h.FullyIndexed() != cfg.StoreID {
			return rep, viol(engine+"/archive-malformed/fully-indexed", "fully-indexed flag=%v but StoreIdentityCIDs=%v", h.FullyIndexed(), cfg.StoreID)
		}
		payload = image[h.DataOffset : h.DataOffset+h.DataSize]
	}
	if exact {
		if !bytes.Equal(payload, want) {
			d := 0
			for d < len(payload) && d < len(want) && payload[d] == want[d] {
				d++
			}
			return rep, viol(engine+"/archive-malformed/payload", "payload differs from the reference encoding of roots+%d stored sections at byte %d (len %d vs %d)", len(stored), d, len(payload), len(want))
		}
	}
	p, err := DecodePayload(payload, false)
	if err != nil {
		return rep, viol(engine+"/archive-malformed/payload-parse", "payload does not parse: %v", err)
	}
	rep.Payload = p
	if p.Version != 1 || !sameCids(p.Roots, roots) {
		return rep, viol(engine+"/archive-malformed/payload-header", "payload header version=%d roots=%v, want 1 %v", p.Version, p.Roots, roots)
	}
	for _, s := range p.Sections {
		if !Honest(s.Cid, s.Data) {
			return rep, viol(engine+"/archive-malformed/dishonest-section", "section at %d: data does not hash to %s", s.Off, s.Cid)
		}
	}
	if !exact {
		// stored ⊆ sections ⊆ atMost (as multisets of cid|data)
		// blocks are identified by their key: the whole CID when requested, the multihash otherwise
		key := func(c cid.Cid) string {
			if cfg.WholeCIDs {
				return cidHex(c)
			}
			return string(c.Hash())
		}
		cnt := map[string]int{}
		for _, s := range p.Sections {
			cnt[key(s.Cid)]++
		}
		for _, b := range stored {
			if cnt[key(b.Cid)] == 0 {
				return rep, viol(engine+"/continuation-malformed/missing-block", "final archive lacks block %s that had to be in it", b.Spec)
			}
		}
		allowed := map[string]bool{}
		for _, b := range atMost {
			allowed[cidHex(b.Cid)] = true
		}
		for _, s := range p.Sections {
			if !allowed[cidHex(s.Cid)] {
				return rep, viol(engine+"/continuation-malformed/phantom-block", "final archive holds section %s at %d that was never put", s.Cid, s.Off)
			}
		}
	}
	if rep.V2 {
		h := rep.Header
		ix, err := DecodeIndex(image[h.IndexOffset:])
		if err != nil {
			return rep, viol(engine+"/archive-malformed/index-parse", "index does not parse: %v", err)
		}
		rep.Index = ix
		if ix.Codec != cfg.EffCodec() {
			return rep, viol(engine+"/archive-malformed/index-codec", "index codec %#x, want %#x", ix.Codec, cfg.EffCodec())
		}
		if d := SameRecs(ix.Recs, ExpectedIndexRecs(p.Sections, ix.Codec, cfg.StoreID)); d != "" {
			return rep, viol(engine+"/archive-malformed/index-records", "index does not resolve exactly the stored sections: %s", d)
		}
		rep.TailLen = len(image) - int(h.IndexOffset) - ix.Len
	}
	// the library's own inspection must accept the file
	var inspErr error
	pv := safeCall(func() {
		rd, err := carv2.NewReader(bytes.NewReader(image))
		if err != nil {
			inspErr = err
			return
		}
		_, inspErr = rd.Inspect(true)
	})
	if pv != nil {
		return rep, viol(engine+"/archive-malformed/inspect-panic", "Inspect(true) panicked on the finalized file: %v", pv)
	}
	if inspErr != nil {
		return rep, viol(engine+"/archive-malformed/inspect-rejects", "the library's Inspect(true) rejects the finalized file: %v", inspErr)
	}
	// ... and the index in the file resolves every stored section through the library's own reader
	var roErr error
	var bad string
	pv = safeCall(func() {
		ro, err := blockstore.NewReadOnly(bytes.NewReader(image), nil, cfg.Options()...)
		if err != nil {
			roErr = err
			return
		}
		for _, b := range stored {
			blk, err := ro.Get(bg, b.Cid)
			if err != nil {
				bad = fmt.Sprintf("Get(%s): %v", b.Spec, err)
				return
			}
			if !bytes.Equal(blk.RawData(), b.Data) {
				bad = fmt.Sprintf("Get(%s) returned %d bytes, want %d", b.Spec, len(blk.RawData()), len(b.Data))
				return
			}
		}
	})
	if pv != nil {
		return rep, viol(engine+"/archive-malformed/readonly-panic", "opening the finalized file read-only panicked: %v", pv)
	}
	if roErr != nil {
		return rep, viol(engine+"/archive-malformed/readonly-rejects", "the library cannot open the finalized file read-only: %v", roErr)
	}
	if bad != "" {
		return rep, viol(engine+"/archive-malformed/index-does-not-resolve", "a read-only store over the finalized file does not return a stored block: %s", bad)
	}
	return rep, nil
}

// VerifierAccepts runs cmd/car/lib.VerifyCar on image through a real temp file
// under dir. It reports (applicable, error).
func VerifierAccepts(dir string, roots []cid.Cid, stored []Blk, image []byte) (bool, error) {
	if len(roots) == 0 {
		return false, nil
	}
	for _, r := range roots {
		found := false
		for _, b := range stored {
			if b.Cid.Equals(r) {
				found = true
				break
			}
		}
		if !found {
			return false, nil
		}
	}
	p := filepath.Join(dir, fmt.Sprintf("verify-%d.car", os.Getpid()))
	if err := os.WriteFile(p, image, 0o644); err != nil {
		panic(&InfraError{"temp file: " + err.Error()})
	}
	defer os.Remove(p)
	var err error
	if pv := safeCall(func() { err = lib.VerifyCar(p) }); pv != nil {
		return true, fmt.Errorf("panic: %v", pv)
	}
	return true, err
}
