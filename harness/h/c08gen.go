package h

// GenC08 draws client programs for the scheduler engine.
func GenC08(seed uint64, run int) *Trace {
	r := RunRng(seed, "C08", "sched", run)
	target := Pick(r, []string{"rw", "rw", "sc", "sc", "dw"})
	cfg := Config{Store: target, Roots: []BlkSpec{{Kind: "raw", Seed: 1, Size: 5}}}
	if target == "dw" {
		cfg.Store = "stream"
		if r.Bool() {
			cfg.Store = "path"
		}
	}
	if target != "dw" || cfg.Store == "path" {
		cfg.CarV1 = r.Chance(1, 5)
		if r.Chance(1, 4) {
			cfg.DataPad = 7
		}
	}
	nkeys := r.Range(2, 5)
	var keys []BlkSpec
	for i := 0; i < nkeys; i++ {
		keys = append(keys, BlkSpec{Kind: Pick(r, []string{"raw", "raw", "cbor", "s512", "sha1"}), Seed: uint64(10 + i), Size: r.Range(0, 24)})
	}
	if r.Chance(1, 4) && nkeys >= 2 {
		// two distinct blocks whose multihashes carry the same digest bytes under different hash codes
		// (dbl-sha2-256 of x, sha2-256 of sha2-256(x)): distinct keys that digest-keyed structures must tell apart
		sz := r.Range(0, 24)
		keys[0] = BlkSpec{Kind: "dbl", Seed: 30, Size: sz}
		keys[1] = BlkSpec{Kind: "shasha", Seed: 30, Size: sz}
	}
	if target != "dw" {
		// options that change which code paths the lookups take (no identity keys are used, so the answers
		// of the model do not depend on them)
		cfg.StoreID = r.Chance(1, 3)
	}
	ss := &SchedSpec{Target: target, PickSeed: r.U64(), MaxSteps: 20000}
	if target == "dw" && r.Bool() {
		ss.Callbacks = r.Range(1, 2)
	}
	nclients := r.Range(2, 4)
	if r.Chance(1, 6) {
		nclients = r.Range(5, 16)
	}
	finalizers := 0
	for c := 0; c < nclients; c++ {
		var prog []Op
		n := r.Range(1, 6)
		if nclients > 4 {
			n = r.Range(1, 3)
		}
		for i := 0; i < n; i++ {
			k := Pick(r, keys)
			v := r.Intn(100)
			switch {
			case v < 38:
				prog = append(prog, Op{Kind: "put", Blks: []BlkSpec{k}})
			case v < 46 && target == "rw":
				prog = append(prog, Op{Kind: "putmany", Blks: []BlkSpec{k, Pick(r, keys)}})
			case v < 62:
				prog = append(prog, Op{Kind: "has", Blks: []BlkSpec{k}})
			case v < 76 && target != "dw":
				prog = append(prog, Op{Kind: "get", Blks: []BlkSpec{k}})
			case v < 82 && target != "dw":
				prog = append(prog, Op{Kind: "getsize", Blks: []BlkSpec{k}})
			case v < 90 && target == "rw":
				prog = append(prog, Op{Kind: "keys"})
			case v < 93 && target != "dw":
				prog = append(prog, Op{Kind: "roots"})
			case v < 97 && finalizers < 2 && i == n-1:
				prog = append(prog, Op{Kind: "finalize"})
				finalizers++
			case v < 100 && target == "rw" && finalizers < 2 && i == n-1:
				prog = append(prog, Op{Kind: Pick(r, []string{"finalize_ro", "finalize_ro", "close", "discard"})})
				finalizers++
			default:
				prog = append(prog, Op{Kind: "has", Blks: []BlkSpec{k}})
			}
		}
		ss.Clients = append(ss.Clients, prog)
	}
	return &Trace{Prop: "C08", Engine: "sched", Seed: seed, Run: run, Cfg: cfg, Sched: ss}
}

// FinalSections decodes a finalized image leniently for the C08 end-of-run oracle.
func FinalSections(engine string, cfg Config, must, atMost []Blk, image []byte) (*ImageReport, *Violation) {
	return checkImage(engine, cfg, cfg.RootCids(), must, atMost, false, image)
}
