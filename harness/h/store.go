package h

import (
	"context"
	"errors"
	"fmt"
	"io"
	"os"

	blocks "github.com/ipfs/go-block-format"
	"github.com/ipfs/go-cid"
	"github.com/ipld/go-car/v2/blockstore"
	"github.com/ipld/go-car/v2/index"
	"github.com/ipld/go-car/v2/storage"
	"github.com/ipld/go-car/v2/storage/deferred"
	"verif/sim"
)

// Env is the simulated machine of one run: a file system with one CAR file.
type Env struct {
	FS   *sim.FS
	Path string

	handle     *sim.File // the caller-owned handle of Config.SameHandle
	handleDisk *sim.Disk
}

// SimPath is deliberately under a directory that does not exist on the real
// machine: if a change to go-car bypasses the substituted file type, the real
// open fails and the harness reports an infrastructure error instead of
// touching the real disk.
const SimPath = "/nonexistent-verif-simfs/session.car"

func NewEnv() *Env {
	e := &Env{FS: sim.NewFS(), Path: SimPath}
	return e
}

// Disk returns the CAR file's disk, or nil when the file does not exist.
func (e *Env) Disk() *sim.Disk { return e.FS.Disks[e.Path] }

// SetDisk installs d as the CAR file.
func (e *Env) SetDisk(d *sim.Disk) { d.Name = e.Path; e.FS.Disks[e.Path] = d }

var scribbleCid = MakeBlock(BlkSpec{"raw", 9009, 3}).Cid

var ErrUnsupported = errors.New("harness: operation not offered by this store kind")

// Store is the uniform view of the two writable stores.
type Store interface {
	Put(b Blk) error
	PutMany(bs []Blk) error
	Has(c cid.Cid) (bool, error)
	Get(c cid.Cid) ([]byte, error)
	GetSize(c cid.Cid) (int, error)
	Keys() ([]cid.Cid, error)
	Roots() ([]cid.Cid, error)
	Finalize() error
	FinalizeReadOnly() error
	Close() error
	Discard()
	Index() index.Index
}

// IsNotFound recognises the not-found errors of both store kinds.
func IsNotFound(err error) bool {
	var nf interface{ NotFound() bool }
	if errors.As(err, &nf) {
		return nf.NotFound()
	}
	return false
}

// OpenStore opens (creating or resuming) the session's store. The file system
// of env is installed for the duration of the call only.
func OpenStore(env *Env, cfg Config) (Store, error) {
	return OpenStoreRoots(env, cfg, cfg.RootCids())
}

func OpenStoreRoots(env *Env, cfg Config, roots []cid.Cid) (st Store, err error) {
	prev := sim.CurrentFS
	sim.CurrentFS = env.FS
	defer func() { sim.CurrentFS = prev }()
	// the store gets the caller's own slice, which the caller puts to other use as soon as the
	// constructor has returned: a store was given the roots' values, not the right to read them later
	if roots != nil {
		pristine := roots
		roots = append(make([]cid.Cid, 0, len(roots)), roots...)
		defer func() {
			// ... and it was not given the right to change them either
			if err == nil && !sameCids(roots, pristine) {
				st, err = nil, fmt.Errorf("harness: the constructor changed the caller's roots slice: now %v, was %v", roots, pristine)
			}
			for i := range roots {
				roots[i] = scribbleCid
			}
		}()
	}
	switch cfg.Store {
	case "rw":
		if d := env.Disk(); d != nil {
			d.EOFAtEnd = false // an *os.File never does this
		}
		if cfg.SameHandle {
			if env.handle == nil || env.handleDisk != env.Disk() || env.Disk() == nil {
				f, err := sim.OpenFile(env.Path, os.O_RDWR|os.O_CREATE, 0o666)
				if err != nil {
					return nil, err
				}
				env.handle, env.handleDisk = f, env.Disk()
			}
			rw, err := blockstore.OpenReadWriteFile(env.handle, roots, cfg.Options()...)
			if err != nil {
				return nil, err
			}
			return &rwStore{rw: rw}, nil
		}
		rw, err := blockstore.OpenReadWrite(env.Path, roots, cfg.Options()...)
		if err != nil {
			return nil, err
		}
		return &rwStore{rw: rw}, nil
	case "sc":
		d := env.Disk()
		if d == nil {
			d = sim.NewDisk(env.Path)
			env.FS.Disks[env.Path] = d
		}
		d.EOFAtEnd = cfg.EOFAtEnd
		f := sim.NewFile(d)
		var sc *storage.StorageCar
		if d.Size() == 0 {
			sc, err = storage.NewReadableWritable(f, roots, cfg.Options()...)
		} else {
			sc, err = storage.OpenReadableWritable(f, roots, cfg.Options()...)
		}
		if err != nil {
			return nil, err
		}
		return &scStore{sc: sc}, nil
	case "sc-nt", "sw-nt":
		// the same writers over a target that has no Truncate method
		d := env.Disk()
		if d == nil {
			d = sim.NewDisk(env.Path)
			env.FS.Disks[env.Path] = d
		}
		if cfg.Store == "sc-nt" {
			d.EOFAtEnd = cfg.EOFAtEnd
			sc, err := storage.NewReadableWritable(sim.NewFileNT(d), roots, cfg.Options()...)
			if err != nil {
				return nil, err
			}
			return &scStore{sc: sc}, nil
		}
		w, err := storage.NewWritable(sim.NewFileNT(d), roots, cfg.Options()...)
		if err != nil {
			return nil, err
		}
		return &swStore{w: w}, nil
	case "sw":
		d := env.Disk()
		if d == nil {
			d = sim.NewDisk(env.Path)
			env.FS.Disks[env.Path] = d
		}
		w, err := storage.NewWritable(sim.NewFile(d), roots, cfg.Options()...)
		if err != nil {
			return nil, err
		}
		return &swStore{w: w}, nil
	case "dw":
		return &dwStore{w: deferred.NewDeferredCarWriterForPath(env.Path, roots, cfg.Options()...)}, nil
	}
	return nil, &InfraError{"unknown store kind " + cfg.Store}
}

// swStore: storage.NewWritable over a WriterAt (write-only CAR).
type swStore struct{ w storage.WritableCar }

func (s *swStore) Put(b Blk) error { return s.w.Put(putCtx, b.Cid.KeyString(), b.Data) }
func (s *swStore) PutMany(bs []Blk) error {
	for _, b := range bs {
		if err := s.Put(b); err != nil {
			return err
		}
	}
	return nil
}
func (s *swStore) Has(c cid.Cid) (bool, error)    { return s.w.Has(bg, c.KeyString()) }
func (s *swStore) Get(c cid.Cid) ([]byte, error)  { return nil, ErrUnsupported }
func (s *swStore) GetSize(c cid.Cid) (int, error) { return 0, ErrUnsupported }
func (s *swStore) Keys() ([]cid.Cid, error)       { return nil, ErrUnsupported }
func (s *swStore) Roots() ([]cid.Cid, error)      { return s.w.Roots(), nil }
func (s *swStore) Finalize() error                { return s.w.Finalize() }
func (s *swStore) FinalizeReadOnly() error        { return ErrUnsupported }
func (s *swStore) Close() error                   { return ErrUnsupported }
func (s *swStore) Discard()                       {}
func (s *swStore) Index() index.Index             { return s.w.Index() }

// dwStore: deferred writer with a path target; Finalize = Close.
type dwStore struct{ w *deferred.DeferredCarWriter }

func (s *dwStore) Put(b Blk) error { return s.w.Put(bg, b.Cid.KeyString(), b.Data) }
func (s *dwStore) PutMany(bs []Blk) error {
	for _, b := range bs {
		if err := s.Put(b); err != nil {
			return err
		}
	}
	return nil
}
func (s *dwStore) Has(c cid.Cid) (bool, error)    { return s.w.Has(bg, c.KeyString()) }
func (s *dwStore) Get(c cid.Cid) ([]byte, error)  { return nil, ErrUnsupported }
func (s *dwStore) GetSize(c cid.Cid) (int, error) { return 0, ErrUnsupported }
func (s *dwStore) Keys() ([]cid.Cid, error)       { return nil, ErrUnsupported }
func (s *dwStore) Roots() ([]cid.Cid, error)      { return nil, ErrUnsupported }
func (s *dwStore) Finalize() error                { return s.w.Close() }
func (s *dwStore) FinalizeReadOnly() error        { return ErrUnsupported }
func (s *dwStore) Close() error                   { return ErrUnsupported }
func (s *dwStore) Discard()                       {}
func (s *dwStore) Index() index.Index             { return nil }

type rwStore struct{ rw *blockstore.ReadWrite }

var bg = context.Background()

// putCtx is the context writes are called with. A run may make it an already cancelled one: the
// stores do not promise anything about contexts, so a write may then be refused before it starts
// (context.Canceled, nothing written) or go ahead as usual - but whatever it does with the writer must
// leave the store as consistent as without it.
var putCtx = bg

func cancelledCtx() context.Context {
	c, cancel := context.WithCancel(context.Background())
	cancel()
	return c
}

func toBlock(b Blk) blocks.Block {
	blk, err := blocks.NewBlockWithCid(b.Data, b.Cid)
	if err != nil {
		panic(err)
	}
	return blk
}

func (s *rwStore) Put(b Blk) error { return s.rw.Put(putCtx, toBlock(b)) }
func (s *rwStore) PutMany(bs []Blk) error {
	x := make([]blocks.Block, len(bs))
	for i, b := range bs {
		x[i] = toBlock(b)
	}
	return s.rw.PutMany(putCtx, x)
}
func (s *rwStore) Has(c cid.Cid) (bool, error) { return s.rw.Has(bg, c) }
func (s *rwStore) Get(c cid.Cid) ([]byte, error) {
	b, err := s.rw.Get(bg, c)
	if err != nil {
		return nil, err
	}
	if !b.Cid().Equals(c) {
		return nil, fmt.Errorf("harness: Get(%s) returned a block labelled %s", c, b.Cid())
	}
	return b.RawData(), nil
}
func (s *rwStore) GetSize(c cid.Cid) (int, error) { return s.rw.GetSize(bg, c) }
func (s *rwStore) Keys() ([]cid.Cid, error) {
	var asyncErr error
	ctx := blockstore.WithAsyncErrorHandler(bg, func(e error) { asyncErr = e })
	ch, err := s.rw.AllKeysChan(ctx)
	if err != nil {
		return nil, err
	}
	var out []cid.Cid
	for c := range ch {
		sim.Yield("client:drain")
		out = append(out, c)
	}
	if asyncErr != nil {
		return out, fmt.Errorf("async: %w", asyncErr)
	}
	return out, nil
}
func (s *rwStore) Roots() ([]cid.Cid, error) { return s.rw.Roots() }
func (s *rwStore) Finalize() error           { return s.rw.Finalize() }
func (s *rwStore) FinalizeReadOnly() error   { return s.rw.FinalizeReadOnly() }
func (s *rwStore) Close() error              { return s.rw.Close() }
func (s *rwStore) Discard()                  { s.rw.Discard() }
func (s *rwStore) Index() index.Index        { return s.rw.Index() }

type scStore struct{ sc *storage.StorageCar }

func (s *scStore) Put(b Blk) error { return s.sc.Put(putCtx, b.Cid.KeyString(), b.Data) }
func (s *scStore) PutMany(bs []Blk) error {
	for _, b := range bs {
		if err := s.Put(b); err != nil {
			return err
		}
	}
	return nil
}
func (s *scStore) Has(c cid.Cid) (bool, error)   { return s.sc.Has(bg, c.KeyString()) }
func (s *scStore) Get(c cid.Cid) ([]byte, error) { return s.sc.Get(bg, c.KeyString()) }
func (s *scStore) GetSize(c cid.Cid) (int, error) {
	rc, err := s.sc.GetStream(bg, c.KeyString())
	if err != nil {
		return -1, err
	}
	defer rc.Close()
	n, err := io.Copy(io.Discard, rc)
	return int(n), err
}
func (s *scStore) Keys() ([]cid.Cid, error)  { return nil, ErrUnsupported }
func (s *scStore) Roots() ([]cid.Cid, error) { return s.sc.Roots(), nil }
func (s *scStore) Finalize() error           { return s.sc.Finalize() }
func (s *scStore) FinalizeReadOnly() error   { return ErrUnsupported }
func (s *scStore) Close() error              { return ErrUnsupported }
func (s *scStore) Discard()                  {}
func (s *scStore) Index() index.Index        { return s.sc.Index() }
