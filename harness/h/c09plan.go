package h

import (
	"encoding/json"
	"fmt"
	"os"
	"os/exec"
	"path/filepath"
	"strings"
	"sync"
	"time"
)

// c09Custom supervises child worker processes: each case is announced before it
// runs, so that a process death (fatal out-of-memory, stack overflow, kill) is
// attributed to the case and the shard is restarted after it.
func c09Custom(p *Plan, prop, tier string, seed uint64) int {
	start := time.Now()
	scr := scratchDir()
	tmp := filepath.Join(scr, "tmp")
	os.MkdirAll(tmp, 0o755)
	self, _ := os.Executable()
	n := workers()
	findings, err := LoadFindings(verifDir())
	if err != nil {
		fmt.Fprintln(os.Stderr, "harness:", err)
		return 2
	}
	budget := budgetOverride(p.Budget)
	total := NewStats()
	var viols []*Trace
	knownAgg := map[string]*KnownHit{}
	var mu sync.Mutex
	infra := ""
	var wg sync.WaitGroup
	for i := 0; i < n; i++ {
		wg.Add(1)
		go func(i int) {
			defer wg.Done()
			from := i
			deaths := 0
			for {
				remaining := budget - time.Since(start)
				if remaining < time.Second {
					return
				}
				outp := filepath.Join(tmp, fmt.Sprintf("c09w%d.json", i))
				annp := filepath.Join(tmp, fmt.Sprintf("c09w%d.ann", i))
				os.Remove(outp)
				os.Remove(annp)
				sh := fmt.Sprintf("ulimit -v %d; exec %q -worker -prop %s -tier %s -seed %d -shard %d -nshard %d -out %q -announce %q -fromrun %d",
					6<<20, self, prop, tier, seed, i, n, outp, annp, from)
				cmd := exec.Command("bash", "-c", sh)
				cmd.Env = append(os.Environ(), fmt.Sprintf("VERIF_BUDGET_S=%d", int(remaining.Seconds())+1), "GOMAXPROCS=1")
				ob, err := cmd.CombinedOutput()
				if err == nil {
					b, rerr := os.ReadFile(outp)
					var r WorkerReport
					if rerr != nil || json.Unmarshal(b, &r) != nil {
						mu.Lock()
						infra = fmt.Sprintf("worker %d produced no report: %v\n%s", i, rerr, ob)
						mu.Unlock()
						return
					}
					mu.Lock()
					total.Merge(r.Stats)
					viols = append(viols, r.Violations...)
					for _, k := range r.KnownHits {
						if a := knownAgg[k.Sig]; a == nil {
							kk := k
							knownAgg[k.Sig] = &kk
						} else {
							a.Count += k.Count
						}
					}
					mu.Unlock()
					return
				}
				if ee, ok := err.(*exec.ExitError); ok && ee.ExitCode() == 2 && !strings.Contains(string(ob), "fatal error") && !strings.Contains(string(ob), "goroutine ") {
					mu.Lock()
					infra = fmt.Sprintf("worker %d: infrastructure failure:\n%s", i, ob)
					mu.Unlock()
					return
				}
				// the child died: attribute to the announced case
				deaths++
				ab, aerr := os.ReadFile(annp)
				var t Trace
				if aerr != nil || json.Unmarshal([]byte(strings.TrimSpace(string(ab))), &t) != nil || t.Medium == nil {
					mu.Lock()
					infra = fmt.Sprintf("worker %d died (%v) before announcing a case:\n%s", i, err, tail(string(ob), 2000))
					mu.Unlock()
					return
				}
				l := BuildImage(t.Medium.Image)
				why := "killed"
				out := string(ob)
				switch {
				case strings.Contains(out, "out of memory"), strings.Contains(out, "cannot allocate memory"):
					why = "fatal error: out of memory"
				case strings.Contains(out, "stack overflow"), strings.Contains(out, "stack exceeds"):
					why = "fatal error: stack overflow"
				case strings.Contains(out, "fatal error"):
					why = "fatal error"
				}
				sig := "medium/process-death/" + t.Medium.Entry + "@" + mutLocus(l, t.Medium.Muts)
				mu.Lock()
				total.Evals++
				total.Probes["c09:child-deaths"]++
				if f := knownSig(findings, prop, sig); f != nil {
					if a := knownAgg[sig]; a == nil {
						knownAgg[sig] = &KnownHit{Sig: sig, What: f.What, Count: 1}
					} else {
						a.Count++
					}
				} else {
					t.Sig = sig
					t.What = fmt.Sprintf("the process died (%s; %v) while %s was parsing a %d-byte medium with faults %v - not an error return", why, err, t.Medium.Entry, len(c09Data(&t, l)), t.Medium.Muts)
					viols = append(viols, &t)
				}
				mu.Unlock()
				from = t.Run + n
				if t.Run < 0 {
					return
				}
				if deaths > 40 {
					return
				}
			}
		}(i)
	}
	wg.Wait()
	if infra != "" {
		fmt.Fprintln(os.Stderr, "harness:", infra)
		return 2
	}
	return finish(p, prop, tier, seed, total, viols, knownAgg, time.Since(start))
}

func tail(s string, n int) string {
	if len(s) > n {
		return s[len(s)-n:]
	}
	return s
}

// c09Replay replays a single case in a child with the same memory limit, so that
// a death is observed rather than suffered.
func c09Replay(p *Plan, t *Trace, path string) int {
	if os.Getenv("VERIF_C09_CHILD") == "1" {
		st := NewStats()
		v := p.Exec(t, st)
		if v == nil {
			fmt.Printf("replay: property=C09 trace=%s: no violation\n", path)
			return 0
		}
		fmt.Printf("VIOLATION property=C09 replay=%s\n  signature: %s\n  %s\n", path, v.Sig, v.What)
		return 1
	}
	self, _ := os.Executable()
	cmd := exec.Command("bash", "-c", fmt.Sprintf("ulimit -v %d; exec %q -replay %q -prop C09", 6<<20, self, path))
	cmd.Env = append(os.Environ(), "VERIF_C09_CHILD=1", "GOMAXPROCS=1")
	ob, err := cmd.CombinedOutput()
	fmt.Print(string(ob))
	if err == nil {
		return 0
	}
	if ee, ok := err.(*exec.ExitError); ok && ee.ExitCode() == 1 {
		return 1
	}
	if strings.Contains(string(ob), "fatal error") || strings.Contains(string(ob), "signal") {
		fmt.Printf("VIOLATION property=C09 replay=%s\n  signature: %s\n  the process died again while replaying: %v\n", path, t.Sig, err)
		return 1
	}
	return 2
}

func init() {
	RegisterPlan("C09", func(tier string) *Plan {
		return &Plan{
			Prop: "C09", Level: "exploration", Engine: "medium",
			Runs:   tierPick(tier, 640, 200000),
			Budget: tierPick(tier, 30*time.Second, 14*time.Minute),
			Rule: "media = reference-built CARv1/CARv2/index files with 1-3 corruption faults (boundary values in every located length/offset/count field incl. hostile sizes 2^24..2^64-1, truncations, bit flips, zeroed/duplicated/dropped extents, appended garbage), raw random bytes, and injected read errors; each delivered through a seeded capability profile and chunking to one of 19 parsing entry points (NewReader+Roots/DataReader/IndexReader/Inspect, ReadVersion, BlockReader with a Next/SkipNext mix, LoadIndex x3 index kinds, GenerateIndex, ReadOrGenerateIndex, index.ReadFrom(+WriteTo), blockstore.NewReadOnly+queries+AllKeysChan, storage.OpenReadable+queries, OpenReadWrite/OpenReadableWritable as resume candidates, WrapV1, root-module reader and loader, internal carv1 reader, ExtractV1File/ReplaceRootsInFile on real temp files) under small size limits (header 64-4096, section 128-8192). Each case runs in a child process (ulimit -v 6 GiB) that announces it first: oracle = no panic, no process death, termination (source call budget 256*len+36k, wall clock), TotalAlloc delta <= header limit + section limit + 1024*len + 1 MiB; plus the boundary clause on valid files (accepted at exactly max, ErrHeaderTooLarge/ErrSectionTooLarge at max+1). " +
				"An evaluation is one case; distinct non-trivial = distinct (entry point, fault locus, capability profile, image kind)",
			Gen: func(seed uint64, run int) *Trace {
				t := GenC09(seed, run)
				t.Extra["tier"] = tier
				return t
			},
			Exec: RunC09, Minimise: false,
			Assume: []string{"'an amount proportional to the input size' is taken as 1024 bytes per input byte plus 1 MiB: generous to per-section bookkeeping, far below any declared-size allocation under the small limits used", "mmap-backed OpenReader/OpenReadOnly are not exercised (SIGBUS on I/O error cannot be simulated); their io.ReaderAt constructors are"},
			Real:   realAll, Stub: stubMedium, Schedule: "single task per case; child processes supervised by the driver",
			Custom: c09Custom, ReplayFn: c09Replay,
			ExpectProbes: []string{"c09:limit-case", "c09:entry=indexreadfrom", "c09:entry=resume:rw", "c09:entry=readonly"},
		}
	})
}
