package h

import (
	"fmt"
	"io"
	"reflect"
	"time"

	"github.com/ipfs/go-cid"
	carv2 "github.com/ipld/go-car/v2"
	"github.com/ipld/go-car/v2/index"
	"github.com/multiformats/go-multicodec"
	"verif/sim"
)

// C13: inspection reports exactly what a full scan finds (differential between
// Reader.Inspect(true) and a hash-verifying BlockReader scan over the same bytes).

type c13Outcome struct {
	accepted bool // NewReader accepted the container
	class    string
}

func statsFromScan(data []byte, version uint64, roots []cid.Cid, blks []retBlk, idxCodec multicodec.Code) carv2.Stats {
	s := carv2.Stats{Version: version, Roots: roots, CodecCounts: map[multicodec.Code]uint64{}, MhTypeCounts: map[multicodec.Code]uint64{}, IndexCodec: idxCodec}
	if version == 2 && len(data) >= RefPragmaSize+RefHeaderSize {
		h := DecodeV2Header(data[RefPragmaSize : RefPragmaSize+RefHeaderSize])
		s.Header = carv2.Header{Characteristics: carv2.Characteristics{Hi: h.CharHi, Lo: h.CharLo}, DataOffset: h.DataOffset, DataSize: h.DataSize, IndexOffset: h.IndexOffset}
	}
	present := 0
	for _, r := range roots {
		for _, b := range blks {
			if b.c.Equals(r) {
				present++
				break
			}
		}
	}
	s.RootsPresent = present == len(roots)
	s.BlockCount = uint64(len(blks))
	var tc, tb uint64
	for i, b := range blks {
		cl, bl := uint64(b.c.ByteLen()), uint64(len(b.data))
		tc += cl
		tb += bl
		if i == 0 || cl < s.MinCidLength {
			s.MinCidLength = cl
		}
		if cl > s.MaxCidLength {
			s.MaxCidLength = cl
		}
		if i == 0 || bl < s.MinBlockLength {
			s.MinBlockLength = bl
		}
		if bl > s.MaxBlockLength {
			s.MaxBlockLength = bl
		}
		p := b.c.Prefix()
		s.CodecCounts[multicodec.Code(p.Codec)]++
		s.MhTypeCounts[multicodec.Code(p.MhType)]++
	}
	if len(blks) > 0 {
		s.AvgCidLength = tc / uint64(len(blks))
		s.AvgBlockLength = tb / uint64(len(blks))
	}
	return s
}

func statsDiff(a, b carv2.Stats) string {
	switch {
	case a.Version != b.Version:
		return fmt.Sprintf("version %d vs %d", a.Version, b.Version)
	case a.Header != b.Header:
		return fmt.Sprintf("header %+v vs %+v", a.Header, b.Header)
	case !sameCids(a.Roots, b.Roots):
		return fmt.Sprintf("roots %v vs %v", a.Roots, b.Roots)
	case a.RootsPresent != b.RootsPresent:
		return fmt.Sprintf("roots-present %v vs %v", a.RootsPresent, b.RootsPresent)
	case a.BlockCount != b.BlockCount:
		return fmt.Sprintf("block-count %d vs %d", a.BlockCount, b.BlockCount)
	case a.MinCidLength != b.MinCidLength || a.MaxCidLength != b.MaxCidLength || a.AvgCidLength != b.AvgCidLength:
		return fmt.Sprintf("cid-lengths min/avg/max %d/%d/%d vs %d/%d/%d", a.MinCidLength, a.AvgCidLength, a.MaxCidLength, b.MinCidLength, b.AvgCidLength, b.MaxCidLength)
	case a.MinBlockLength != b.MinBlockLength || a.MaxBlockLength != b.MaxBlockLength || a.AvgBlockLength != b.AvgBlockLength:
		return fmt.Sprintf("block-lengths min/avg/max %d/%d/%d vs %d/%d/%d", a.MinBlockLength, a.AvgBlockLength, a.MaxBlockLength, b.MinBlockLength, b.AvgBlockLength, b.MaxBlockLength)
	case !reflect.DeepEqual(a.CodecCounts, b.CodecCounts):
		return fmt.Sprintf("codec-counts %v vs %v", a.CodecCounts, b.CodecCounts)
	case !reflect.DeepEqual(a.MhTypeCounts, b.MhTypeCounts):
		return fmt.Sprintf("mh-counts %v vs %v", a.MhTypeCounts, b.MhTypeCounts)
	case a.IndexCodec != b.IndexCodec:
		return fmt.Sprintf("index-codec %v vs %v", a.IndexCodec, b.IndexCodec)
	}
	return ""
}

func statField(d string) string {
	for i := 0; i < len(d); i++ {
		if d[i] == ' ' {
			return d[:i]
		}
	}
	return d
}

// mutLocus names where a mutation landed, for signatures.
func mutLocus(l *Layout, muts []Mut) string {
	if len(muts) == 0 {
		return "valid"
	}
	m := muts[0]
	switch m.Kind {
	case "field", "fieldfix":
		f := m.Field
		// drop indices: sec3.len -> sec.len
		out := []byte{}
		for i := 0; i < len(f); i++ {
			if f[i] >= '0' && f[i] <= '9' {
				continue
			}
			out = append(out, f[i])
		}
		return "field:" + string(out)
	case "garbage", "append", "grow":
		return m.Kind
	default:
		r, _ := l.Region(m.Off)
		return m.Kind + ":" + r
	}
}

// runC13One compares the two sides on one medium.
func runC13One(l *Layout, muts []Mut, opts ReadOpts, st *Stats) (oc c13Outcome, v *Violation) {
	data := l.ApplyMuts(muts)
	loc := mutLocus(l, muts)
	if opts.MaxSection > 0 {
		loc += "+limit"
	}
	// how the bytes are delivered is part of the case: it is derived from the medium, not drawn
	var hsum uint64 = 1469598103934665603
	for _, b := range data {
		hsum = (hsum ^ uint64(b)) * 1099511628211
	}
	for _, m := range muts {
		hsum = (hsum ^ uint64(m.Off+int64(m.Val)+int64(len(m.Kind)))) * 1099511628211
	}
	dr := NewRng(hsum)
	delA := sim.Delivery{ErrAt: -1, EOFWithData: dr.Chance(1, 3)}
	srcA, coreA := sim.NewSource(data, Pick(dr, []string{sim.ProfA, sim.ProfRSA, sim.ProfRSAB}), delA)
	coreA.Budget = srcBudget(len(data)) * 8
	rootsFirst := dr.Chance(1, 3)
	var rd *carv2.Reader
	var nerr, ierr error
	var stats carv2.Stats
	pv := safeCall(func() {
		rd, nerr = carv2.NewReader(srcA.(io.ReaderAt), opts.Options()...)
		if nerr != nil {
			return
		}
		if rootsFirst {
			// a caller that looked at the roots before inspecting - and then put the slice it was handed
			// to other use: what Inspect reports is the header's roots, not whatever that slice holds now
			if rs, err := rd.Roots(); err == nil {
				for i := range rs {
					rs[i] = scribbleCid
				}
			}
		}
		stats, ierr = rd.Inspect(true)
	})
	if pv != nil {
		if be, ok := pv.(sim.BudgetExceeded); ok {
			return oc, viol("medium/nontermination/inspect@"+loc, "Inspect made no progress: %v", be)
		}
		return oc, viol("medium/panic/inspect@"+loc, "NewReader/Inspect panicked: %v", pv)
	}
	if nerr != nil {
		oc.class = "container-rejected"
		return oc, nil
	}
	oc.accepted = true
	// side B: verifying scan
	scanDel := GenDelivery(dr)
	scanOpts := opts
	scanOpts.Trusted = false // the scan the statement compares with is the hash-verifying one, whatever the Reader was given
	res := scanWith("v2br", data, Pick(dr, readerProfiles), scanDel, scanOpts)
	if res.panicV != nil {
		return oc, viol("medium/panic/v2br@"+loc, "BlockReader panicked: %v", res.panicV)
	}
	scanOK := res.constructErr == nil && res.clean
	idxOK := true
	var idxCodec multicodec.Code
	if rd.Version == 2 && rd.Header.HasIndex() {
		pv := safeCall(func() {
			ir, err := rd.IndexReader()
			if err != nil || ir == nil {
				idxOK = false
				return
			}
			c, err := index.ReadCodec(ir)
			if err != nil {
				idxOK = false
				return
			}
			idxCodec = c
		})
		if pv != nil {
			idxOK = false
		}
	}
	want := scanOK && idxOK
	oc.class = fmt.Sprintf("inspect=%v scan=%v idx=%v", ierr == nil, scanOK, idxOK)
	if (ierr == nil) != want {
		scanErr := res.constructErr
		if scanErr == nil {
			scanErr = res.endErr
		}
		side := "inspect-accepts"
		if ierr != nil {
			side = "inspect-rejects"
		}
		return oc, viol("medium/accept-mismatch/"+side+"@"+loc, "Inspect(true) error=%v but the verifying scan ended with %v after %d blocks (index readable=%v) [%v]", ierr, scanErr, len(res.blocks), idxOK, muts)
	}
	if ierr != nil {
		return oc, nil
	}
	// both succeeded: statistics must be those of the scan
	br, err := carv2.NewBlockReader(bytesReader(data), scanOpts.Options()...)
	if err != nil {
		return oc, viol("medium/accept-mismatch/blockreader-flaky@"+loc, "second NewBlockReader failed: %v", err)
	}
	exp := statsFromScan(data, br.Version, br.Roots, res.blocks, idxCodec)
	if d := statsDiff(stats, exp); d != "" {
		return oc, viol("medium/stats-mismatch/"+statField(d)+"@"+loc, "Inspect(true) statistics differ from those of the scan: %s [%v]", d, muts)
	}
	return oc, nil
}

type byteRd struct {
	b []byte
	p int
}

func (r *byteRd) Read(p []byte) (int, error) {
	if r.p >= len(r.b) {
		return 0, io.EOF
	}
	n := copy(p, r.b[r.p:])
	r.p += n
	return n, nil
}

func bytesReader(b []byte) io.Reader { return &byteRd{b: b} }

// c13Mutations lists the corruption faults enumerated for one image.
func c13Mutations(l *Layout, r *Rng, thorough bool) [][]Mut {
	var out [][]Mut
	out = append(out, nil) // the valid image itself
	for _, f := range l.Fields() {
		for _, v := range BoundaryValues {
			out = append(out, []Mut{{Kind: "field", Field: f.Name, Val: v}})
		}
		// neighbours of the current value for small fields
		if f.Kind == "varint" || f.Kind == "u8" {
			cur := uint64(l.Image[f.Off])
			if f.Kind == "varint" {
				cur, _, _ = ReadUvarint(l.Image[f.Off:])
			}
			for _, d := range []int64{-2, -1, 1, 2, 36, -36} {
				if int64(cur)+d >= 0 {
					out = append(out, []Mut{{Kind: "field", Field: f.Name, Val: uint64(int64(cur) + d)}})
				}
			}
		}
	}
	// extra bytes inside a block, container otherwise consistent: every section, one and a few bytes
	for i := range l.Payload.Sections {
		for _, k := range []int{1, 5} {
			out = append(out, []Mut{{Kind: "grow", Off: int64(i), Len: k, Val: uint64(7 + i)}})
		}
	}
	n := int64(len(l.Image))
	step := int64(1)
	if n > 1500 && !thorough {
		step = 3
	}
	for o := int64(0); o < n; o += step {
		out = append(out, []Mut{{Kind: "trunc", Off: o}})
	}
	flips := 150
	if thorough {
		flips = 600
	}
	for i := 0; i < flips && n > 0; i++ {
		out = append(out, []Mut{{Kind: "flip", Off: int64(r.Intn(int(n))), Bit: r.Intn(8)}})
	}
	for i := 0; i < 40 && n > 0; i++ {
		o := int64(r.Intn(int(n)))
		switch r.Intn(5) {
		case 0:
			out = append(out, []Mut{{Kind: "zero", Off: o, Len: r.Range(1, 40)}})
		case 1:
			out = append(out, []Mut{{Kind: "dup", Off: o, Len: r.Range(1, 40)}})
		case 2:
			out = append(out, []Mut{{Kind: "drop", Off: o, Len: r.Range(1, 40)}})
		case 3:
			out = append(out, []Mut{{Kind: "set", Off: o, Val: uint64(Pick(r, []int{0, 1, 0x7f, 0x80, 0xff, 0x12, 0x20}))}})
		case 4:
			out = append(out, []Mut{{Kind: "append", Len: r.Range(1, 64), Val: r.U64()}})
		}
	}
	return out
}

func c13OptVariants(l *Layout, r *Rng) []ReadOpts {
	base := ReadOpts{ZeroEOF: l.Spec.NullPad > 0}
	// (WithTrustedCAR is an option of the sequential readers; full-validation inspection hashes regardless)
	out := []ReadOpts{base, {ZeroEOF: !base.ZeroEOF}, {ZeroEOF: base.ZeroEOF, Trusted: true}}
	// section-size limits placed around the real section and block sizes
	seen := map[uint64]bool{}
	for _, s := range l.Payload.Sections {
		sl := uint64(s.CidLen + s.DataLen)
		for _, lim := range []uint64{sl, sl - 1, uint64(s.DataLen), uint64(s.DataLen) + 1, sl + 1} {
			if lim > 0 && !seen[lim] && len(seen) < 10 {
				seen[lim] = true
				o := base
				o.MaxSection = lim
				out = append(out, o)
			}
		}
	}
	hl := uint64(l.Payload.HeaderLen)
	for _, lim := range []uint64{hl - 2, hl - 1, hl} {
		o := base
		o.MaxHeader = lim
		out = append(out, o)
	}
	return out
}

func RunC13(t *Trace, st *Stats) *Violation {
	ms := t.Medium
	l := BuildImage(ms.Image)
	if !ms.All {
		st.Evals++
		_, v := runC13One(l, ms.Muts, ms.Opts, st)
		return v
	}
	thorough := t.Extra != nil && t.Extra["thorough"] == true
	r := RunRng(t.Seed, "C13", "medium-enum", t.Run)
	var first *Violation
	seen := map[string]bool{}
	report := func(muts []Mut, opts ReadOpts, v *Violation) bool {
		if seen[v.Sig] {
			return false
		}
		seen[v.Sig] = true
		pt := t.Clone()
		pt.Medium.All = false
		pt.Medium.Muts, pt.Medium.Opts = muts, opts
		if st.Report != nil {
			return st.Report(pt, v)
		}
		if first == nil {
			first = v
		}
		return false
	}
	variants := c13OptVariants(l, r)
	muts := c13Mutations(l, r, thorough)
	for mi, m := range muts {
		vs := variants[:2]
		if mi == 0 {
			vs = variants // the valid image meets every limit variant
		} else if mi%7 == 0 && len(variants) > 2 {
			vs = append([]ReadOpts{}, variants[0], variants[2+mi%(len(variants)-2)])
		}
		for _, o := range vs {
			st.Evals++
			st.Steps++
			oc, v := runC13One(l, m, o, st)
			kind := "valid"
			if len(m) > 0 {
				kind = m[0].Kind
				st.Fault(kind, 1)
			}
			if oc.accepted {
				st.Mark("c13", fmt.Sprint(ms.Image.V2, ms.Image.IndexCodec, len(ms.Image.Blocks)), mutLocus(l, m), fmt.Sprint(o.ZeroEOF, o.MaxSection > 0, o.MaxHeader > 0), oc.class)
				st.Probe("c13:container-accepted")
			} else {
				st.Probe("c13:container-rejected")
			}
			if v != nil && report(m, o, v) {
				return first
			}
		}
	}
	st.Sample(map[string]any{"image": ms.Image, "mutations": len(muts), "option_variants": len(variants)})
	return first
}

func GenC13(seed uint64, run int) *Trace {
	r := RunRng(seed, "C13", "medium", run)
	spec := GenImageSpec(r, 6)
	for i := range spec.Blocks {
		if spec.Blocks[i].Size > 120 {
			spec.Blocks[i].Size = r.Range(0, 120)
		}
	}
	if r.Chance(1, 80) {
		LongBlocks(r, &spec)
	}
	if r.Chance(1, 3) && len(spec.Blocks) > 0 {
		// an empty block and an identity block: the shapes min/avg statistics are sensitive to
		spec.Blocks = append(spec.Blocks, BlkSpec{Kind: "raw", Seed: 3, Size: 0}, BlkSpec{Kind: "id", Seed: 3, Size: Pick(r, []int{0, 3, 20})})
		r2 := r.Intn(len(spec.Blocks))
		spec.Blocks[r2], spec.Blocks[len(spec.Blocks)-1] = spec.Blocks[len(spec.Blocks)-1], spec.Blocks[r2]
	}
	if r.Chance(1, 10) {
		spec.HeaderEnc = r.Range(1, 2) // a header that is accepted but not what the library itself writes
	}
	if len(spec.Blocks) > 0 && r.Chance(1, 6) {
		// a root that is NOT a block of the archive but shares its multihash with one (another codec or CID
		// version over the same bytes): present-roots accounting must compare CIDs
		b := Pick(r, spec.Blocks)
		if alt, ok := map[string]string{"raw": "cbor", "cbor": "pb", "pb": "v0", "v0": "raw"}[b.Kind]; ok {
			spec.Roots = append(spec.Roots, BlkSpec{Kind: alt, Seed: b.Seed, Size: b.Size})
		}
	}
	if r.Chance(1, 25) {
		// a CID around and beyond the default index CID limit (2048 bytes): limits that belong to indexing
		// must not leak into inspection or scanning
		big := BlkSpec{Kind: "id", Seed: 5, Size: Pick(r, []int{2043, 2044, 2050, 3200})}
		at := r.Intn(len(spec.Blocks) + 1)
		spec.Blocks = append(spec.Blocks[:at:at], append([]BlkSpec{big}, spec.Blocks[at:]...)...)
	}
	return &Trace{Prop: "C13", Engine: "medium", Seed: seed, Run: run, Medium: &MediumSpec{Image: spec, All: true, Del: sim.Delivery{ErrAt: -1}}, Extra: map[string]any{}}
}

func init() {
	RegisterPlan("C13", func(tier string) *Plan {
		return &Plan{
			Prop: "C13", Level: "exploration", Engine: "medium",
			Runs:   tierPick(tier, 800, 100000),
			Budget: tierPick(tier, 55*time.Second, 14*time.Minute),
			Rule: "valid CARv1/CARv2 images built by the reference codec (incl. empty and identity blocks, duplicate roots) and medium faults on them: every located numeric field (v2 header fields, pragma length/version, header length/version, every section length and multihash length, index codec/count/width/length/offset fields) set to each of 21 boundary values and to neighbours of its current value, every truncation offset, seeded bit flips, zeroed/duplicated/dropped extents, appended garbage; x ZeroLengthSectionAsEOF on/off x section/header size limits placed around the real sizes. Only media that NewReader accepts count. Oracle (differential): Inspect(true) succeeds iff a hash-verifying BlockReader scan reaches io.EOF and a claimed index has a readable codec; when both succeed every Stats field equals the value computed from the scan's block sequence and the raw header bytes. " +
				"An evaluation is one (medium, options); distinct non-trivial = accepted containers with distinct (image shape, fault locus, option class, outcome class)",
			Gen: func(seed uint64, run int) *Trace {
				t := GenC13(seed, run)
				if tier == "thorough" {
					t.Extra["thorough"] = true
				}
				return t
			},
			Exec: RunC13, Minimise: true, ExtraShrink: shrinkMedium,
			Assume: []string{"a disagreement is a violation whichever side is 'right' (the statement is an equivalence)", "the index clause uses the library's own index.ReadCodec on the index window"},
			Real:   realAll, Stub: stubMedium, Schedule: "single task; the simulator owns the medium's content",
			ExpectProbes: []string{"c13:container-accepted", "c13:container-rejected"},
		}
	})
}
