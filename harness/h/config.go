package h

import (
	"encoding/json"
	"fmt"
	"os"

	"github.com/ipfs/go-cid"
	carv2 "github.com/ipld/go-car/v2"
	"github.com/multiformats/go-multicodec"
)

// Config is the option set and target of one writing session.
type Config struct {
	Store      string `json:"store"` // "rw" blockstore.ReadWrite | "sc" storage.StorageCar
	DataPad    uint64 `json:"data_pad,omitempty"`
	IndexPad   uint64 `json:"index_pad,omitempty"`
	IndexCodec uint64 `json:"index_codec,omitempty"` // 0 default, 0x400, 0x401
	StoreID    bool   `json:"store_identity,omitempty"`
	WholeCIDs  bool   `json:"whole_cids,omitempty"`
	AllowDup   bool   `json:"allow_dup,omitempty"`
	CarV1      bool   `json:"car_v1,omitempty"`
	MaxIdxCid  uint64 `json:"max_index_cid,omitempty"` // 0 default
	ZeroEOF    bool   `json:"zero_eof,omitempty"`
	MaxHeader  uint64 `json:"max_header,omitempty"`
	MaxSection uint64 `json:"max_section,omitempty"`
	// EOFAtEnd: the caller's ReaderAt (storage kinds only) reports io.EOF together with a full read
	// that ends at the end of the medium.
	EOFAtEnd bool `json:"eof_at_end,omitempty"`
	// SameHandle (store "rw" only): the caller opens the file once and hands the same handle to
	// blockstore.OpenReadWriteFile for every (re)open, instead of a path.
	SameHandle bool      `json:"same_handle,omitempty"`
	Roots      []BlkSpec `json:"roots"`
}

func (c Config) Options() []carv2.Option {
	var o []carv2.Option
	if c.DataPad > 0 {
		o = append(o, carv2.UseDataPadding(c.DataPad))
	}
	if c.IndexPad > 0 {
		o = append(o, carv2.UseIndexPadding(c.IndexPad))
	}
	if c.IndexCodec != 0 {
		o = append(o, carv2.UseIndexCodec(multicodec.Code(c.IndexCodec)))
	}
	if c.StoreID {
		o = append(o, carv2.StoreIdentityCIDs(true))
	}
	if c.WholeCIDs {
		o = append(o, carv2.UseWholeCIDs(true))
	}
	if c.AllowDup {
		o = append(o, carv2.AllowDuplicatePuts(true))
	}
	if c.CarV1 {
		o = append(o, carv2.WriteAsCarV1(true))
	}
	if c.MaxIdxCid > 0 {
		o = append(o, carv2.MaxIndexCidSize(c.MaxIdxCid))
	}
	if c.ZeroEOF {
		o = append(o, carv2.ZeroLengthSectionAsEOF(true))
	}
	if c.MaxHeader > 0 {
		o = append(o, carv2.MaxAllowedHeaderSize(c.MaxHeader))
	}
	if c.MaxSection > 0 {
		o = append(o, carv2.MaxAllowedSectionSize(c.MaxSection))
	}
	return o
}

// EffCodec is the index codec a finalized file must carry.
func (c Config) EffCodec() uint64 {
	if c.IndexCodec == 0 {
		return CodecMhSorted
	}
	return c.IndexCodec
}

func (c Config) EffMaxIdxCid() uint64 {
	if c.MaxIdxCid == 0 {
		return 2048
	}
	return c.MaxIdxCid
}

func (c Config) RootCids() []cid.Cid {
	out := make([]cid.Cid, len(c.Roots))
	for i, s := range c.Roots {
		out[i] = MakeBlock(s).Cid
	}
	return out
}

var dataPads = []uint64{0, 0, 0, 1, 7, 100, 1413, 512, 4096}
var indexPads = []uint64{0, 0, 0, 1, 9, 512, 4096}

// GenConfig draws a configuration swarm-style: each run enables a random subset of features.
func GenConfig(r *Rng, store string) Config {
	c := Config{Store: store}
	if r.Chance(1, 3) {
		c.DataPad = Pick(r, dataPads)
	}
	if r.Chance(1, 3) {
		c.IndexPad = Pick(r, indexPads)
	}
	switch r.Intn(4) {
	case 0:
		c.IndexCodec = CodecSorted
	case 1:
		c.IndexCodec = CodecMhSorted
	}
	c.StoreID = r.Chance(1, 3)
	c.WholeCIDs = r.Chance(1, 3)
	c.AllowDup = r.Chance(1, 4)
	c.CarV1 = r.Chance(1, 5)
	if r.Chance(1, 4) {
		// mostly a limit that bites; sometimes the spellings of "no limit" (values beyond the int64 range)
		// (35: between the length of a sha2-256 multihash, 34, and of a CIDv1 carrying it, 36)
		c.MaxIdxCid = Pick(r, []uint64{40, 40, 40, 40, 35, 1 << 63, ^uint64(0)})
	}
	c.ZeroEOF = r.Chance(1, 5)
	nroots := Pick(r, []int{0, 1, 1, 1, 2, 3})
	if r.Chance(1, 40) {
		nroots = Pick(r, []int{23, 24, 25, 256, 1030}) // the CBOR array head of the roots grows at 24 and at 256 entries; 1030: beyond any small-N shortcut
	}
	c.Roots = []BlkSpec{}
	for i := 0; i < nroots; i++ {
		if i > 0 && r.Chance(1, 4) {
			c.Roots = append(c.Roots, c.Roots[r.Intn(i)]) // duplicate root
			continue
		}
		k := Pick(r, []string{"raw", "cbor", "pb", "v0", "raw", "s512", "raw", "cbor", "pb", "v0", "raw", "id"})
		sz := r.Range(0, 40)
		if k == "id" {
			sz = Pick(r, []int{18, 19, 20, 250, 251}) // CID length on a CBOR head boundary (23|24, 255|256)
		}
		c.Roots = append(c.Roots, BlkSpec{Kind: k, Seed: uint64(r.Intn(4)), Size: sz})
	}
	c.EOFAtEnd = r.Chance(1, 4)
	return c
}

// Op is one API call of a trace.
type Op struct {
	Kind string    `json:"op"`
	Blks []BlkSpec `json:"blks,omitempty"` // put / putmany / key argument (first element)
	Arg  int       `json:"arg,omitempty"`  // free integer argument (e.g. callback once flag)
	Cfg  *Config   `json:"cfg,omitempty"`  // reopen with a changed configuration (C12 mismatch)
}

// Trace is a replay file: it holds every decision of one execution.
type Trace struct {
	Prop   string `json:"property"`
	Engine string `json:"engine"`
	Seed   uint64 `json:"seed"`
	Run    int    `json:"run"`
	Cfg    Config `json:"cfg"`
	Ops    []Op   `json:"ops,omitempty"`
	// engine-specific parts
	Crash  *CrashSpec     `json:"crash,omitempty"`
	Faults []FaultSpec    `json:"faults,omitempty"`
	Medium *MediumSpec    `json:"medium,omitempty"`
	Sched  *SchedSpec     `json:"sched,omitempty"`
	Extra  map[string]any `json:"extra,omitempty"`
	// filled when a violation is reported
	Sig  string `json:"violation_signature,omitempty"`
	What string `json:"violation,omitempty"`
}

// CrashSpec: the process stops after K byte-mutations of the main session plus J bytes of the next.
type CrashSpec struct {
	K int `json:"k"`
	J int `json:"j"`
	// All = enumerate every crash point of the session (K, J ignored).
	All bool `json:"all,omitempty"`
	// Cont are the continuation puts after a successful resume.
	Cont []BlkSpec `json:"cont,omitempty"`
}

// FaultSpec: transient fault on write call Call (0-based, counted over the target's write calls).
type FaultSpec struct {
	Call int    `json:"call"`
	Kind string `json:"kind"` // "fail" | "short"
	N    int    `json:"n,omitempty"`
	// Trunc: the same outage also fails the next Truncate (the roll-back of the partial section)
	Trunc bool `json:"trunc,omitempty"`
}

// MediumSpec and SchedSpec are defined next to their engines.

func (t *Trace) Clone() *Trace {
	b, _ := json.Marshal(t)
	var n Trace
	if err := json.Unmarshal(b, &n); err != nil {
		panic(err)
	}
	return &n
}

func LoadTrace(path string) (*Trace, error) {
	b, err := os.ReadFile(path)
	if err != nil {
		return nil, err
	}
	var t Trace
	if err := json.Unmarshal(b, &t); err != nil {
		return nil, fmt.Errorf("%s: %w", path, err)
	}
	return &t, nil
}

func (t *Trace) Save(path string) error {
	b, err := json.MarshalIndent(t, "", " ")
	if err != nil {
		return err
	}
	return os.WriteFile(path, b, 0o644)
}

// Violation is what an oracle raises.
type Violation struct {
	Sig  string // <engine>/<symptom>/<locus>
	What string
}

func (v *Violation) Error() string { return v.Sig + ": " + v.What }

func viol(sig, format string, a ...any) *Violation {
	return &Violation{Sig: sig, What: fmt.Sprintf(format, a...)}
}

// InfraError marks a harness problem (never a VIOLATION).
type InfraError struct{ Msg string }

func (e *InfraError) Error() string { return "infrastructure: " + e.Msg }
