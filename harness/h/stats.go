package h

import (
	"encoding/json"
	"hash/fnv"
	"sort"
)

// Stats is what one worker measured; the driver merges them.
type Stats struct {
	Evals        int64             `json:"evals"`
	Steps        int64             `json:"steps"`
	Finger       map[uint64]bool   `json:"-"`
	FingerList   []uint64          `json:"finger"`
	Faults       map[string]int64  `json:"faults"`
	Probes       map[string]int64  `json:"probes"`
	Inconclusive int64             `json:"inconclusive"`
	Samples      []json.RawMessage `json:"samples"`
	Known        map[string]int64  `json:"known"`
	Runs         int64             `json:"runs"`
	Exhaustive   bool              `json:"exhaustive"`
	// Report lets an enumerating engine hand over several violations of one run; it returns true to stop.
	Report func(t *Trace, v *Violation) bool `json:"-"`
}

func NewStats() *Stats {
	return &Stats{Finger: map[uint64]bool{}, Faults: map[string]int64{}, Probes: map[string]int64{}, Known: map[string]int64{}}
}

func (s *Stats) Fault(kind string, n int64)  { s.Faults[kind] += n }
func (s *Stats) Probe(name string)           { s.Probes[name]++ }
func (s *Stats) ProbeN(name string, n int64) { s.Probes[name] += n }

// Mark records the fingerprint of a distinct non-trivial execution.
func (s *Stats) Mark(parts ...string) {
	h := fnv.New64a()
	for _, p := range parts {
		h.Write([]byte(p))
		h.Write([]byte{0})
	}
	s.Finger[h.Sum64()] = true
}

func (s *Stats) Sample(v any) {
	if len(s.Samples) >= 3 {
		return
	}
	b, err := json.Marshal(v)
	if err == nil && len(b) < 6000 {
		s.Samples = append(s.Samples, b)
	}
}

func (s *Stats) Seal() {
	s.FingerList = s.FingerList[:0]
	for k := range s.Finger {
		s.FingerList = append(s.FingerList, k)
	}
	sort.Slice(s.FingerList, func(i, j int) bool { return s.FingerList[i] < s.FingerList[j] })
}

func (s *Stats) Merge(o *Stats) {
	s.Evals += o.Evals
	s.Steps += o.Steps
	s.Inconclusive += o.Inconclusive
	s.Runs += o.Runs
	for _, k := range o.FingerList {
		s.Finger[k] = true
	}
	for k := range o.Finger {
		s.Finger[k] = true
	}
	for k, v := range o.Faults {
		s.Faults[k] += v
	}
	for k, v := range o.Probes {
		s.Probes[k] += v
	}
	for k, v := range o.Known {
		s.Known[k] += v
	}
	for _, sm := range o.Samples {
		if len(s.Samples) < 3 {
			s.Samples = append(s.Samples, sm)
		}
	}
}
