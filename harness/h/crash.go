package h

import (
	"bytes"
	"fmt"
	"os"
	"strings"
	"time"

	"github.com/ipfs/go-cid"
	"github.com/ipld/go-car/v2/index"
	"verif/sim"
)

// C06: crash at any point of a writing session never resumes into corrupt state.
//
// Phase 1 runs the whole (possibly multi-instance) session on a simulated disk
// and keeps the mutation log with ack markers. Phase 2 enumerates crash points
// (p, j): the disk holds log entries [0,p) plus the first j bytes of entry p.
// Phase 3 reopens each image with the same roots and options and judges.

// opRecord is what phase 1 learned about one op.
type opRecord struct {
	kind   string
	stored []Blk // blocks the model says this op stored (and the call returned nil)
	all    []Blk // every block the op mentions
}

type crashRun struct {
	t     *Trace
	cfg   Config
	log   []sim.Mutation
	ops   []opRecord // indexed by op number (0 = initial open)
	ackAt []int      // log index of each op's ack marker (-1 if none)
	final []byte

	everySecondTorn bool // thorough tier: a second, torn crash after every first crash point (else one in three)
}

// phase1 executes the session. Ops: put / putmany / finalize / restart_clean / restart_final.
func crashPhase1(t *Trace) (*crashRun, *Violation) {
	prevFS := sim.CurrentFS
	defer func() { sim.CurrentFS = prevFS }()
	cr := &crashRun{t: t, cfg: t.Cfg}
	env := NewEnv()
	m := NewModel(t.Cfg)
	disk := sim.NewDisk(env.Path)
	env.SetDisk(disk)
	disk.CurOp = 0
	var store Store
	var err error
	if pv := safeCall(func() { store, err = OpenStore(env, t.Cfg) }); pv != nil {
		return nil, viol("session/panic/open", "open panicked: %v", pv)
	}
	if err != nil {
		return nil, viol("session/open-failed/fresh", "opening a fresh store failed: %v", err)
	}
	sim.CurrentFS = env.FS
	disk.Ack(0)
	cr.ops = append(cr.ops, opRecord{kind: "open"})
	finalized := false
	for i, op := range t.Ops {
		n := i + 1
		disk.CurOp = n
		rec := opRecord{kind: op.Kind, all: MakeBlocks(op.Blks)}
		switch op.Kind {
		case "put", "putmany":
			if finalized {
				cr.ops = append(cr.ops, opRecord{kind: "noop"})
				continue
			}
			perr, pv := c12Put(store, op)
			if pv != nil {
				return nil, viol("session/panic/put", "put panicked: %v", pv)
			}
		batch:
			for _, b := range rec.all {
				switch m.PutVerdict(b) {
				case putStore:
					m.Secs = append(m.Secs, b)
					rec.stored = append(rec.stored, b)
				case putSkip:
				default:
					break batch
				}
			}
			if perr != nil {
				// a rejected batch: what was stored before the rejection stays stored (C04 checks that)
			}
		case "finalize", "restart_final":
			if finalized {
				cr.ops = append(cr.ops, opRecord{kind: "noop"})
				continue
			}
			var ferr error
			if pv := safeCall(func() { ferr = store.Finalize() }); pv != nil || ferr != nil {
				return nil, viol("session/finalize-failed/fault-free", "Finalize failed: %v %v", ferr, pv)
			}
			if op.Kind == "finalize" {
				finalized = true
			}
		case "restart_clean":
			if finalized {
				cr.ops = append(cr.ops, opRecord{kind: "noop"})
				continue
			}
			store.Discard()
		default:
			panic(&InfraError{"crash: unknown op " + op.Kind})
		}
		if op.Kind == "restart_clean" || op.Kind == "restart_final" {
			var oerr error
			if pv := safeCall(func() { store, oerr = OpenStore(env, t.Cfg) }); pv != nil || oerr != nil {
				return nil, viol("resume/refused/matching", "reopen during the prior history failed: %v %v", oerr, pv)
			}
			sim.CurrentFS = env.FS
		}
		disk.Ack(n)
		cr.ops = append(cr.ops, rec)
	}
	cr.log = disk.Log
	cr.final = disk.MustBytes()
	cr.ackAt = make([]int, len(cr.ops))
	for i := range cr.ackAt {
		cr.ackAt[i] = -1
	}
	for li, e := range cr.log {
		if e.Kind == sim.MutAck && e.Op < len(cr.ackAt) {
			cr.ackAt[e.Op] = li
		}
	}
	return cr, nil
}

// locus classifies log entry p (the write that is torn or about to happen).
func (cr *crashRun) locus(p int, j int) string {
	pre := "before:"
	torn := j > 0
	if torn {
		pre = "in:"
	}
	if p >= len(cr.log) {
		return "after:last-write/end"
	}
	e := cr.log[p]
	kind := "open"
	if e.Op < len(cr.ops) {
		kind = cr.ops[e.Op].kind
	}
	if strings.HasPrefix(kind, "restart") {
		kind = "reopen"
		// restart_final = Finalize + reopen: non-zero header/index writes belong to the Finalize half
		if e.Kind == sim.MutWrite && (kind == "reopen") && cr.ops[e.Op].kind == "restart_final" {
			nz := false
			for _, b := range e.Data {
				if b != 0 {
					nz = true
				}
			}
			if nz {
				kind = "finalize"
			}
		}
	}
	if e.Kind == sim.MutTruncate {
		return pre + "truncate/" + kind
	}
	region := "data"
	dataOff := int64(0)
	if !cr.cfg.CarV1 {
		dataOff = 51 + int64(cr.cfg.DataPad)
	}
	switch {
	case !cr.cfg.CarV1 && e.Off < 11:
		region = "pragma"
	case !cr.cfg.CarV1 && e.Off < 27:
		region = "v2header-chars"
	case !cr.cfg.CarV1 && e.Off < 51:
		region = "v2header-offsets"
		if torn {
			// which of the three 8-byte fields (data offset, data size, index offset) the cut falls in:
			// what a reader makes of the record differs completely between them
			region += "." + []string{"dataoffset", "datasize", "indexoffset", "indexoffset"}[min(3, int(e.Off-27+int64(j)-1)/8)]
		}
	case kind == "put" || kind == "putmany":
		// ordinal of this write among the op's writes: varint, cid, data per stored block
		ord := 0
		for q := 0; q < p; q++ {
			if cr.log[q].Kind == sim.MutWrite && cr.log[q].Op == e.Op {
				ord++
			}
		}
		region = []string{"section-varint", "section-cid", "section-data"}[ord%3]
	case kind == "finalize":
		region = "index"
	case e.Off >= dataOff && (kind == "open" || kind == "reopen"):
		region = "data-header"
	}
	return pre + region + "/" + kind
}

// byteEntries returns the log indices that change bytes.
func (cr *crashRun) byteEntries() []int {
	var out []int
	for i, e := range cr.log {
		if e.Kind != sim.MutAck {
			out = append(out, i)
		}
	}
	return out
}

// imageAt builds the crash image (p, j) from scratch.
func (cr *crashRun) imageAt(p, j int) *sim.Disk {
	d := sim.NewDisk(SimPath)
	d.NoLog = true
	for i := 0; i < p && i < len(cr.log); i++ {
		e := cr.log[i]
		switch e.Kind {
		case sim.MutWrite:
			d.WriteAt(e.Data, e.Off)
		case sim.MutTruncate:
			d.Truncate(e.Off)
		}
	}
	if p < len(cr.log) && j > 0 && cr.log[p].Kind == sim.MutWrite {
		e := cr.log[p]
		if j > len(e.Data) {
			j = len(e.Data)
		}
		d.WriteAt(e.Data[:j], e.Off)
	}
	d.NoLog = false
	d.WriteCalls, d.ReadCalls, d.TruncCalls = 0, 0, 0
	return d
}

func blkSet(bs []Blk) map[string]Blk {
	m := map[string]Blk{}
	for _, b := range bs {
		m[string(b.Cid.Hash())] = b
	}
	return m
}

// judge evaluates one crash image.
func (cr *crashRun) judge(img *sim.Disk, p int, j int, cont []BlkSpec, st *Stats) *Violation {
	torn := j > 0
	prevFS := sim.CurrentFS
	defer func() { sim.CurrentFS = prevFS }()
	loc := cr.locus(p, j)
	// acked / invoked
	var acked, invoked []Blk
	curOp := len(cr.ops)
	if p < len(cr.log) {
		curOp = cr.log[p].Op
	}
	for n, rec := range cr.ops {
		if cr.ackAt[n] >= 0 && cr.ackAt[n] < p || p >= len(cr.log) {
			acked = append(acked, rec.stored...)
		}
		if n <= curOp {
			invoked = append(invoked, rec.all...)
		}
	}
	env := NewEnv()
	env.SetDisk(img)
	before := img.MustBytes()
	var store Store
	var oerr error
	if pv := safeCall(func() { store, oerr = OpenStore(env, cr.cfg) }); pv != nil {
		return viol("crash/reopen-panic/"+loc, "reopening the crash image panicked: %v", pv)
	}
	sim.CurrentFS = env.FS
	if oerr != nil {
		st.Probe("crash:reopen-refused")
		// (a) acknowledged sections must still be on disk, byte for byte, where they were written
		after, berr := img.Bytes()
		if berr != nil {
			return viol("crash/acked-block-destroyed/"+loc, "after a refused reopen (%v) the file is unreadable: %v", oerr, berr)
		}
		for n, rec := range cr.ops {
			if len(rec.stored) == 0 || !(cr.ackAt[n] >= 0 && cr.ackAt[n] < p) {
				continue
			}
			for q := 0; q < p; q++ {
				e := cr.log[q]
				if e.Kind != sim.MutWrite || e.Op != n {
					continue
				}
				end := e.Off + int64(len(e.Data))
				if end > int64(len(after)) || !bytes.Equal(after[e.Off:end], e.Data) {
					return viol("crash/acked-block-destroyed/"+loc, "reopen failed (%v) and destroyed bytes [%d,%d) of acknowledged op #%d (file %d -> %d bytes)", oerr, e.Off, end, n, len(before), len(after))
				}
			}
		}
		return nil
	}
	st.Probe("crash:reopen-ok")
	// (b) every acknowledged block is there with exact bytes
	for _, b := range acked {
		var has bool
		var herr error
		var data []byte
		var gerr error
		if pv := safeCall(func() {
			has, herr = store.Has(b.Cid)
			data, gerr = store.Get(b.Cid)
		}); pv != nil {
			return viol("crash/lookup-panic/"+loc, "lookup of acknowledged block %s panicked after resume: %v", b.Spec, pv)
		}
		if herr != nil || !has || gerr != nil {
			return viol("crash/acked-block-missing/"+loc, "resumed store lost acknowledged block %s: Has=%v,%v Get err=%v", b.Spec, has, herr, gerr)
		}
		if !bytes.Equal(data, b.Data) {
			return viol("crash/wrong-bytes/"+loc, "resumed store returns wrong bytes for acknowledged block %s (%d bytes, want %d)", b.Spec, len(data), len(b.Data))
		}
	}
	// only blocks that were put, each intact
	inv := blkSet(invoked)
	var listed []cid.Cid
	if ii, ok := store.Index().(*index.InsertionIndex); ok {
		ii.ForEachCid(func(c cid.Cid, _ uint64) error { listed = append(listed, c); return nil })
	}
	if cr.cfg.Store == "rw" {
		ks, kerr := store.Keys()
		if kerr != nil {
			return viol("crash/keys-failed/"+loc, "AllKeysChan of the resumed store failed: %v", kerr)
		}
		listed = append(listed, ks...)
	}
	byCid := map[string]Blk{}
	for _, b := range invoked {
		byCid[cidHex(b.Cid)] = b
	}
	for _, c := range listed {
		b, ok := byCid[cidHex(c)]
		if !ok && !cr.cfg.WholeCIDs {
			b, ok = inv[string(c.Hash())]
		}
		if !ok {
			return viol("crash/phantom-key/"+loc, "resumed store lists key %s that was never put", c)
		}
		var data []byte
		var gerr error
		if pv := safeCall(func() { data, gerr = store.Get(c) }); pv != nil {
			return viol("crash/lookup-panic/"+loc, "Get of listed block %s panicked: %v", b.Spec, pv)
		}
		if gerr != nil {
			return viol("crash/listed-block-unreadable/"+loc, "resumed store lists block %s but Get fails: %v", b.Spec, gerr)
		}
		if !bytes.Equal(data, b.Data) {
			return viol("crash/wrong-bytes/"+loc, "resumed store returns wrong bytes for listed block %s (%d bytes, want %d)", b.Spec, len(data), len(b.Data))
		}
	}
	// (c) continuation: re-put what was in flight, put fresh blocks, finalize
	m := &Model{Cfg: cr.cfg, Secs: append([]Blk(nil), acked...)}
	must := append([]Blk(nil), acked...)
	atMost := append([]Blk(nil), invoked...)
	var contBlks []Blk
	if (p*3+j)%4 != 0 {
		if curOp < len(cr.ops) {
			contBlks = append(contBlks, cr.ops[curOp].all...)
		}
		contBlks = append(contBlks, MakeBlocks(cont)...)
	} // else: the resumed session is finalized as it is, without a single put (one crash point in four)
	secondTorn := cr.everySecondTorn || (p*7+boolInt(torn))%3 == 0
	for _, b := range contBlks {
		var perr error
		verdict := m.PutVerdict(b)
		var pre *sim.Disk
		logBefore := img.MutCount()
		if secondTorn && verdict == putStore {
			pre = img.Clone()
		}
		if pv := safeCall(func() { perr = store.Put(b) }); pv != nil {
			return viol("crash/continuation-panic/"+loc, "Put(%s) after resume panicked: %v", b.Spec, pv)
		}
		if pre != nil && perr == nil {
			// a second crash INSIDE this put of the resumed session: the file may be longer than the place
			// the session writes at (whatever the first crash left behind the payload is still there)
			secondTorn = false
			if v := cr.judgeSecondTorn(pre, img.Log[logBefore:], must, b, loc, st); v != nil {
				return v
			}
			sim.CurrentFS = env.FS
		}
		atMost = append(atMost, b)
		if perr != nil {
			if verdict == putReject {
				continue
			}
			return viol("crash/continuation-failed/"+loc, "Put(%s) after a successful resume failed: %v", b.Spec, perr)
		}
		if verdict == putStore {
			// it may also have been skipped legitimately: the torn op's block can already be on disk
			has, _ := store.Has(b.Cid)
			if !has {
				return viol("crash/continuation-failed/"+loc, "Put(%s) after resume returned nil but Has is false", b.Spec)
			}
			must = append(must, b)
			m.Secs = append(m.Secs, b)
		}
	}
	// a second crash right after the continuation puts (all of them acknowledged, nothing torn):
	// resuming once more must still hold every acknowledged block
	if len(contBlks) > 0 {
		env2 := NewEnv()
		env2.SetDisk(img.Clone())
		var st2 Store
		var err2 error
		if pv := safeCall(func() { st2, err2 = OpenStore(env2, cr.cfg) }); pv != nil {
			return viol("crash/reopen-panic/second:"+loc, "second reopen (after the continuation puts) panicked: %v", pv)
		}
		sim.CurrentFS = env.FS
		if err2 == nil {
			st.Probe("crash:second-resume-ok")
			for _, b := range must {
				has, herr := st2.Has(b.Cid)
				data, gerr := st2.Get(b.Cid)
				if herr != nil || !has || gerr != nil || !bytes.Equal(data, b.Data) {
					return viol("crash/acked-block-missing/second:"+loc, "after resuming, putting more blocks and crashing again at a write boundary, the second resume lost acknowledged block %s (Has=%v,%v Get err=%v)", b.Spec, has, herr, gerr)
				}
			}
			st2.Discard()
		}
	}
	var ferr error
	var preFin *sim.Disk
	logBeforeFin := img.MutCount()
	if cr.everySecondTorn || (p*5+j)%3 == 1 {
		preFin = img.Clone()
	}
	if pv := safeCall(func() { ferr = store.Finalize() }); pv != nil {
		return viol("crash/continuation-panic/"+loc, "Finalize after resume panicked: %v", pv)
	}
	if preFin != nil && ferr == nil {
		// a second crash INSIDE the Finalize of the resumed session
		if v := cr.judgeSecondTorn(preFin, img.Log[logBeforeFin:], must, Blk{}, "fin:"+loc, st); v != nil {
			return v
		}
		sim.CurrentFS = env.FS
	}
	if ferr != nil {
		return viol("crash/continuation-failed/"+loc, "Finalize after a successful resume failed: %v", ferr)
	}
	final, berr := img.Bytes()
	if berr != nil {
		return viol("crash/continuation-malformed/"+loc, "final file unreadable: %v", berr)
	}
	if _, v := checkImage("crash", cr.cfg, cr.cfg.RootCids(), must, atMost, false, final); v != nil {
		v.Sig = v.Sig + "@" + loc
		return v
	}
	return nil
}

func boolInt(b bool) int {
	if b {
		return 1
	}
	return 0
}

// judgeSecondTorn cuts the writes of one put of the resumed session (boundaries and torn writes),
// resumes again and requires: every block acknowledged before that put is there with its bytes, and the
// block of the cut put is either absent or intact.
func (cr *crashRun) judgeSecondTorn(pre *sim.Disk, writes []sim.Mutation, must []Blk, tb Blk, loc string, st *Stats) *Violation {
	var ws []sim.Mutation
	for _, w := range writes {
		if w.Kind == sim.MutWrite || w.Kind == sim.MutTruncate {
			ws = append(ws, w)
		}
	}
	type cut struct{ q, j int }
	var cuts []cut
	for q, w := range ws {
		if q > 0 {
			cuts = append(cuts, cut{q, 0})
		}
		if n := len(w.Data); w.Kind == sim.MutWrite && n > 1 {
			if n <= 48 && !tb.Cid.Defined() {
				// the small records of a Finalize (header characteristics, offsets): every byte
				for j := 1; j < n; j++ {
					cuts = append(cuts, cut{q, j})
				}
				continue
			}
			cuts = append(cuts, cut{q, 1})
			if n > 3 {
				cuts = append(cuts, cut{q, n / 2}, cut{q, n - 1})
			}
		}
	}
	for _, c := range cuts {
		d := pre.Clone()
		d.NoLog = true
		for i := 0; i < c.q; i++ {
			if ws[i].Kind == sim.MutWrite {
				d.WriteAt(ws[i].Data, ws[i].Off)
			} else {
				d.Truncate(ws[i].Off)
			}
		}
		if c.j > 0 {
			d.WriteAt(ws[c.q].Data[:c.j], ws[c.q].Off)
		}
		d.NoLog = false
		st.Fault("crash@second-torn", 1)
		env2 := NewEnv()
		env2.SetDisk(d)
		var st2 Store
		var err2 error
		if pv := safeCall(func() { st2, err2 = OpenStore(env2, cr.cfg) }); pv != nil {
			return viol("crash/reopen-panic/second-torn:"+loc, "reopening after a second crash inside Put(%s) of the resumed session panicked: %v", tb.Spec, pv)
		}
		sim.CurrentFS = env2.FS
		if err2 != nil {
			st.Probe("crash:second-torn-refused")
			continue
		}
		st.Probe("crash:second-torn-resumed")
		for _, b := range must {
			has, herr := st2.Has(b.Cid)
			data, gerr := st2.Get(b.Cid)
			if herr != nil || !has || gerr != nil || !bytes.Equal(data, b.Data) {
				return viol("crash/acked-block-missing/second-torn:"+loc, "a second crash inside Put(%s) of the resumed session (write %d cut at %d): the next resume lost acknowledged block %s (Has=%v,%v Get err=%v)", tb.Spec, c.q, c.j, b.Spec, has, herr, gerr)
			}
		}
		if !tb.Cid.Defined() {
			st2.Discard()
			continue
		}
		if has, _ := st2.Has(tb.Cid); has && !IsIdentity(tb.Cid) {
			data, gerr := st2.Get(tb.Cid)
			if gerr != nil {
				return viol("crash/listed-block-unreadable/second-torn:"+loc, "a second crash inside Put(%s) of the resumed session (write %d cut at %d): the next resume has the block but Get fails: %v", tb.Spec, c.q, c.j, gerr)
			}
			if !bytes.Equal(data, tb.Data) {
				return viol("crash/wrong-bytes/second-torn:"+loc, "a second crash inside Put(%s) of the resumed session (write %d cut at %d): the next resume returns %d wrong bytes for the block whose Put never returned (want %d)", tb.Spec, c.q, c.j, len(data), len(tb.Data))
			}
		}
		st2.Discard()
	}
	return nil
}

// crashPoints yields the (p, j) pairs to examine. every=false picks structural offsets.
func (cr *crashRun) crashPoints(every bool, f func(p, j int) bool) {
	for _, p := range cr.byteEntries() {
		e := cr.log[p]
		if !f(p, 0) {
			return
		}
		if e.Kind != sim.MutWrite {
			continue
		}
		n := len(e.Data)
		if every || n <= 48 {
			for j := 1; j < n; j++ {
				if !f(p, j) {
					return
				}
			}
			continue
		}
		seen := map[int]bool{}
		for _, j := range []int{1, 2, n / 2, n - 2, n - 1} {
			if j > 0 && j < n && !seen[j] {
				seen[j] = true
				if !f(p, j) {
					return
				}
			}
		}
	}
	f(len(cr.log), 0)
}

// RunC06 executes a crash trace: all points (Crash.All) or the one recorded.
func RunC06(t *Trace, st *Stats) *Violation {
	cr, v := crashPhase1(t)
	if v != nil {
		return v
	}
	var cont []BlkSpec
	every := false
	if t.Crash != nil {
		cont = t.Crash.Cont
	}
	if t.Extra != nil {
		if b, ok := t.Extra["every_byte"].(bool); ok {
			every = b
		}
	}
	cr.everySecondTorn = every
	if t.Crash != nil && !t.Crash.All {
		// one recorded crash point: every stage is judged (the search judges the second, torn crash only at
		// one point in three). An earlier stage's symptom can then hide the recorded one, so when the
		// trace records a signature and the full judgement shows another, the point is judged again with
		// the stages the search used, and the recorded symptom is preferred.
		st.Evals++
		cr.everySecondTorn = true
		v := cr.judge(cr.imageAt(t.Crash.K, t.Crash.J), t.Crash.K, t.Crash.J, cont, st)
		if t.Sig != "" && (v == nil || v.Sig != t.Sig) && !every {
			cr.everySecondTorn = false
			if v2 := cr.judge(cr.imageAt(t.Crash.K, t.Crash.J), t.Crash.K, t.Crash.J, cont, st); v2 != nil && v2.Sig == t.Sig {
				return v2
			}
		}
		return v
	}
	var first *Violation
	seenSig := map[string]bool{}
	images := 0
	cr.crashPoints(every, func(p, j int) bool {
		images++
		st.Evals++
		st.Steps++
		if j > 0 {
			st.Fault("crash@torn", 1)
		} else {
			st.Fault("crash@boundary", 1)
		}
		v := cr.judge(cr.imageAt(p, j), p, j, cont, st)
		st.Mark("c06", cfgKey(t.Cfg), fmt.Sprint(len(t.Ops)), cr.locus(p, j), fmt.Sprint(v != nil))
		if v == nil {
			return true
		}
		if seenSig[v.Sig] {
			return true
		}
		seenSig[v.Sig] = true
		pt := t.Clone()
		pt.Crash = &CrashSpec{K: p, J: j, Cont: cont}
		if st.Report != nil {
			return !st.Report(pt, v)
		}
		if first == nil {
			first = v
		}
		return true
	})
	st.ProbeN("crash:images", int64(images))
	st.Sample(map[string]any{"cfg": t.Cfg, "ops": t.Ops, "crash_images": images, "log_entries": len(cr.log)})
	return first
}

// GenC06 draws a session, optionally preceded by a prior history.
func GenC06(seed uint64, run int) *Trace {
	r := RunRng(seed, "C06", "crash", run)
	cfg := GenConfig(r, c12Store(r))
	t := &Trace{Prop: "C06", Engine: "crash", Seed: seed, Run: run, Cfg: cfg}
	alpha := genAlphabet(r, r.Range(1, 5), false)
	if r.Chance(1, 12) {
		// a tiny archive: no roots, very short CIDs - the whole file stays below the size of a CARv2
		// pragma + header (51 bytes), which is where size-based shortcuts go wrong
		t.Cfg.Roots = []BlkSpec{}
		t.Cfg.StoreID = true
		t.Cfg.CarV1 = r.Chance(2, 3)
		t.Cfg.DataPad, t.Cfg.IndexPad, t.Cfg.MaxIdxCid = 0, 0, 0
		alpha = []BlkSpec{{Kind: "id", Seed: 1, Size: 0}, {Kind: "id", Seed: 2, Size: 1}, {Kind: "id", Seed: 3, Size: 2}, {Kind: "id", Seed: 4, Size: 3}}
	}
	put := func() {
		if r.Chance(1, 4) {
			t.Ops = append(t.Ops, Op{Kind: "putmany", Blks: genBatch(r, t.Cfg, alpha, 3)})
		} else {
			t.Ops = append(t.Ops, Op{Kind: "put", Blks: []BlkSpec{Pick(r, alpha)}})
		}
	}
	// prior history: a session that ended by Discard or Finalize and was reopened
	if r.Chance(2, 5) {
		for i, n := 0, r.Range(0, 3); i < n; i++ {
			put()
		}
		if r.Bool() {
			t.Ops = append(t.Ops, Op{Kind: "restart_clean"})
		} else {
			t.Ops = append(t.Ops, Op{Kind: "restart_final"})
		}
	}
	for i, n := 0, r.Range(0, 5); i < n; i++ {
		put()
	}
	if r.Chance(1, 12) || os.Getenv("VERIF_C06_MANY") != "" {
		if os.Getenv("VERIF_C06_MANY") != "" {
			t.Cfg.ZeroEOF = true // development aid: hunt for the symptoms of D3
		}
		// many tiny distinct blocks: the flattened index grows past 1 KiB, which is what a crash
		// between index and header needs in order to be rescanned as plausible sections (and, for the
		// rescan to stop "cleanly", null padding allowed and the index right behind the payload)
		if r.Bool() {
			t.Cfg.ZeroEOF, t.Cfg.IndexPad = true, 0
		}
		for i, n := 0, r.Range(26, 44); i < n; i++ {
			t.Ops = append(t.Ops, Op{Kind: "put", Blks: []BlkSpec{{Kind: "raw", Seed: uint64(100 + i), Size: r.Range(0, 3)}}})
		}
	}
	if r.Chance(1, 15) {
		// a block of 64 KiB and more (where writers start to treat sections differently: preallocation,
		// chunked copies), possibly followed by a small one
		t.Ops = append(t.Ops, Op{Kind: "put", Blks: []BlkSpec{{Kind: Pick(r, []string{"raw", "v0"}), Seed: 70, Size: Pick(r, []int{65536, 70000, 102400})}}})
		if r.Bool() {
			put()
		}
	}
	if r.Chance(4, 5) {
		t.Ops = append(t.Ops, Op{Kind: "finalize"})
	}
	t.Crash = &CrashSpec{All: true}
	for i, n := 0, r.Range(0, 2); i < n; i++ {
		t.Crash.Cont = append(t.Crash.Cont, BlkSpec{Kind: Pick(r, []string{"raw", "cbor", "id", "s512"}), Seed: uint64(50 + r.Intn(3)), Size: r.Range(0, 60)})
	}
	return t
}

func init() {
	RegisterPlan("C06", func(tier string) *Plan {
		every := tier == "thorough"
		return &Plan{
			Prop: "C06", Level: "fault_enumeration", Engine: "crash",
			Runs:   tierPick(tier, 1600, 100000),
			Budget: tierPick(tier, 55*time.Second, 14*time.Minute),
			Rule: "each generated writing session (blockstore.ReadWrite or storage.StorageCar on a simulated disk, swarm-drawn options, optional prior history ending in Discard/Finalize + reopen) is run once to obtain its mutation log; then EVERY write boundary and, inside each write, " +
				tierPick(tier, "every byte of writes <= 48 bytes (all v2-header, varint and CID writes) and offsets {1,2,mid,len-2,len-1} of longer ones", "every byte offset") +
				" is materialised as a crash image, reopened with the same roots/options and judged: refused reopen leaves acknowledged sections intact; successful reopen has every acknowledged block with exact bytes, lists only blocks that were put, continuing (re-put of the in-flight blocks, fresh puts) and crashing again at that write boundary resumes with every acknowledged block, and Finalize then yields a well-formed archive per the reference codec and Inspect(true). " +
				"An evaluation is one crash image; distinct non-trivial = distinct (options, session length, structural locus of the crash point, outcome)",
			Gen: func(seed uint64, run int) *Trace {
				t := GenC06(seed, run)
				if every {
					t.Extra = map[string]any{"every_byte": true}
				}
				return t
			},
			Exec: RunC06, Minimise: true,
			Assume: []string{"durable state = any prefix of the writes issued, last one possibly torn (the property's own crash model); reordered or lost-in-the-middle writes are not generated", "sessions themselves are sampled; crash points are enumerated per session"},
			Real:   realAll, Stub: stubDisk, Schedule: "single task",
			ExpectProbes: []string{"crash:reopen-refused", "crash:reopen-ok"},
		}
	})
}
