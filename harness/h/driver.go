package h

import (
	"bufio"
	"encoding/json"
	"flag"
	"fmt"
	"hash/fnv"
	"os"
	"os/exec"
	"path/filepath"
	"runtime"
	"sort"
	"strconv"
	"strings"
	"time"
)

// Plan is what a (property, tier) pair runs.
type Plan struct {
	Prop     string
	Level    string // evidence level
	Engine   string
	Runs     int           // number of generated runs (seeded), 0 = until budget
	Exh      int           // number of exhaustively enumerated cases run before the seeded ones
	Budget   time.Duration // wall budget for the run loop of each worker
	Rule     string
	Gen      func(seed uint64, run int) *Trace
	ExhGen   func(idx int) *Trace
	Exec     func(t *Trace, st *Stats) *Violation
	Minimise bool
	Assume   []string
	Real     []string
	Stub     []string
	Schedule string
	// ExpectProbes are reach probes that should be non-zero; a zero one is printed as a WARNING.
	ExpectProbes []string
	// Custom replaces the generic worker fan-out (C08, C09).
	Custom func(p *Plan, prop, tier string, seed uint64) int
	// ReplayFn replaces the generic replay.
	ReplayFn func(p *Plan, t *Trace, path string) int
	// ExtraCov is merged into the evidence coverage object.
	ExtraCov map[string]any
	// ExtraShrink offers engine-specific reductions to the minimiser.
	ExtraShrink func(t *Trace, try func(*Trace) bool) *Trace
}

func jsonOf(v any) (string, error) {
	b, err := json.Marshal(v)
	return string(b), err
}

// Known finding / fixed entry.
type Finding struct {
	Property string `json:"property"`
	Sig      string `json:"sig"`
	Status   string `json:"status"` // known | fixed
	Commit   string `json:"commit,omitempty"`
	What     string `json:"what"`
}

// LoadFindings reads /verif/known_findings.txt. Line formats:
//
//	known: property=<id> sig=<signature> <what fails>
//	fixed: property=<id> <commit> sig=<signature> <what failed>
//
// Only "known" lines suppress anything; "fixed" lines are a record.
func LoadFindings(dir string) ([]Finding, error) {
	f, err := os.Open(filepath.Join(dir, "known_findings.txt"))
	if err != nil {
		if os.IsNotExist(err) {
			return nil, nil
		}
		return nil, err
	}
	defer f.Close()
	var out []Finding
	sc := bufio.NewScanner(f)
	sc.Buffer(make([]byte, 1<<20), 1<<20)
	for sc.Scan() {
		line := strings.TrimSpace(sc.Text())
		if line == "" || strings.HasPrefix(line, "#") {
			continue
		}
		var fd Finding
		switch {
		case strings.HasPrefix(line, "known:"):
			fd.Status = "known"
			line = strings.TrimSpace(strings.TrimPrefix(line, "known:"))
		case strings.HasPrefix(line, "fixed:"):
			fd.Status = "fixed"
			line = strings.TrimSpace(strings.TrimPrefix(line, "fixed:"))
		default:
			return nil, fmt.Errorf("known_findings.txt: unrecognised line %q", line)
		}
		fields := strings.Fields(line)
		var rest []string
		for _, fl := range fields {
			switch {
			case fd.Property == "" && strings.HasPrefix(fl, "property="):
				fd.Property = strings.TrimPrefix(fl, "property=")
			case fd.Sig == "" && strings.HasPrefix(fl, "sig="):
				fd.Sig = strings.TrimPrefix(fl, "sig=")
			case fd.Status == "fixed" && fd.Commit == "" && fd.Property != "" && fd.Sig == "":
				fd.Commit = fl
			default:
				rest = append(rest, fl)
			}
		}
		fd.What = strings.Join(rest, " ")
		if fd.Property == "" || (fd.Status == "known" && fd.Sig == "") {
			return nil, fmt.Errorf("known_findings.txt: incomplete line %q", sc.Text())
		}
		out = append(out, fd)
	}
	return out, sc.Err()
}

func knownSig(fs []Finding, prop, sig string) *Finding {
	for i := range fs {
		if fs[i].Status == "known" && fs[i].Property == prop && fs[i].Sig == sig {
			return &fs[i]
		}
	}
	return nil
}

// WorkerReport is what a worker process hands back.
type WorkerReport struct {
	Stats      *Stats     `json:"stats"`
	Violations []*Trace   `json:"violations"`
	KnownHits  []KnownHit `json:"known_hits"`
	Infra      string     `json:"infra,omitempty"`
	WallS      float64    `json:"wall_s"`
}

type KnownHit struct {
	Sig   string `json:"sig"`
	What  string `json:"what"`
	Count int64  `json:"count"`
}

var plans = map[string]func(tier string) *Plan{}

// WorkerFromRun makes a (restarted) worker begin at that run index instead of its shard index.
var WorkerFromRun int

func jsonBytes(v any) ([]byte, error) { return json.Marshal(v) }

// RegisterPlan makes a property runnable.
func RegisterPlan(prop string, f func(tier string) *Plan) { plans[prop] = f }

func verifDir() string {
	if d := os.Getenv("VERIF_DIR"); d != "" {
		return d
	}
	return "/verif"
}

func scratchDir() string {
	if d := os.Getenv("VERIF_SCR"); d != "" {
		return d
	}
	return os.TempDir()
}

// Main is the entry point of the harness binary.
func Main() int {
	var (
		prop     = flag.String("prop", "", "property id")
		tier     = flag.String("tier", "quick", "quick|thorough")
		seed     = flag.Uint64("seed", 1, "VERIF_SEED")
		worker   = flag.Bool("worker", false, "internal: run as worker")
		shard    = flag.Int("shard", 0, "internal: shard index")
		nshard   = flag.Int("nshard", 1, "internal: shard count")
		out      = flag.String("out", "", "internal: worker report path")
		replay   = flag.String("replay", "", "replay a trace file")
		selftest = flag.Bool("selftest", false, "determinism self-test")
		dump     = flag.Int("dump", -1, "print the generated trace of run N and exit")
		racew    = flag.Bool("raceworker", false, "internal: run as race-pass worker (variant C binary)")
		racerep  = flag.String("racereplay", "", "internal: replay a race workload (variant C binary)")
		annPath  = flag.String("announce", "", "internal: file in which a C09 child announces each case")
		fromRun  = flag.Int("fromrun", 0, "internal: first run index of a restarted worker")
	)
	flag.Parse()
	defer func() {
		if r := recover(); r != nil {
			if ie, ok := r.(*InfraError); ok {
				fmt.Fprintln(os.Stderr, "harness:", ie.Error())
				os.Exit(2)
			}
			panic(r)
		}
	}()
	switch {
	case *selftest:
		return SelfTest()
	case *replay != "":
		return Replay(*prop, *replay)
	case *racerep != "":
		return RaceReplayMain(*racerep)
	case *racew:
		return RaceWorker(*seed, *tier, *shard, *nshard, *out)
	case *worker:
		WorkerFromRun = *fromRun
		if *annPath != "" {
			C09ChildInit(*annPath)
		}
		return workerMain(*prop, *tier, *seed, *shard, *nshard, *out)
	case *dump >= 0:
		pf := plans[*prop]
		if pf == nil {
			fmt.Fprintln(os.Stderr, "unknown property", *prop)
			return 2
		}
		b, _ := json.MarshalIndent(pf(*tier).Gen(*seed, *dump), "", " ")
		fmt.Println(string(b))
		return 0
	}
	return parentMain(*prop, *tier, *seed)
}

func workers() int {
	if s := os.Getenv("VERIF_WORKERS"); s != "" {
		if n, err := strconv.Atoi(s); err == nil && n > 0 {
			return n
		}
	}
	n := runtime.NumCPU()
	if n > 16 {
		n = 16
	}
	return n
}

func budgetOverride(d time.Duration) time.Duration {
	if s := os.Getenv("VERIF_BUDGET_S"); s != "" {
		if n, err := strconv.Atoi(s); err == nil && n > 0 {
			return time.Duration(n) * time.Second
		}
	}
	return d
}

// Execute runs one trace under its plan's engine.
func Execute(p *Plan, t *Trace, st *Stats) (v *Violation) {
	return p.Exec(t, st)
}

func workerMain(prop, tier string, seed uint64, shard, nshard int, out string) int {
	pf := plans[prop]
	if pf == nil {
		fmt.Fprintln(os.Stderr, "unknown property", prop)
		return 2
	}
	return WorkerLoop(pf(tier), prop, seed, shard, nshard, out)
}

// PlanFor returns the registered plan of a property.
func PlanFor(prop, tier string) *Plan {
	if pf := plans[prop]; pf != nil {
		return pf(tier)
	}
	return nil
}

// WorkerLoop runs the shard's runs of plan p and writes a WorkerReport to out.
func WorkerLoop(p *Plan, prop string, seed uint64, shard, nshard int, out string) int {
	findings, err := LoadFindings(verifDir())
	if err != nil {
		fmt.Fprintln(os.Stderr, "harness:", err)
		return 2
	}
	start := time.Now()
	budget := budgetOverride(p.Budget)
	st := NewStats()
	rep := &WorkerReport{Stats: st}
	known := map[string]*KnownHit{}
	handle := func(t *Trace, v *Violation) bool {
		if f := knownSig(findings, prop, v.Sig); f != nil {
			kh := known[v.Sig]
			if kh == nil {
				kh = &KnownHit{Sig: v.Sig, What: f.What}
				known[v.Sig] = kh
			}
			kh.Count++
			st.Known[v.Sig]++
			return false
		}
		for _, old := range rep.Violations {
			if old.Sig == v.Sig {
				return false
			}
		}
		t = t.Clone()
		t.Sig, t.What = v.Sig, v.What
		if p.Minimise && os.Getenv("VERIF_NO_MINIMISE") == "" { // (sweeps over seeded changes only need the verdict)
			t = Minimise(p, t, findings)
		}
		rep.Violations = append(rep.Violations, t)
		maxv := 3
		if s := os.Getenv("VERIF_MAXVIOL"); s != "" {
			if n, err := strconv.Atoi(s); err == nil {
				maxv = n
			}
		}
		return len(rep.Violations) >= maxv
	}
	// determinism self-test support: cap the runs and write one digest line per run
	var digest *os.File
	if dp := os.Getenv("VERIF_DIGEST"); dp != "" {
		digest, _ = os.OpenFile(dp, os.O_APPEND|os.O_CREATE|os.O_WRONLY, 0o644)
		defer digest.Close()
	}
	if mr := os.Getenv("VERIF_MAXRUNS"); mr != "" {
		if n, err := strconv.Atoi(mr); err == nil {
			p.Runs, p.Exh = n, 0
			budget = time.Hour
		}
	}
	var runSigs []string
	stop := false
	st.Report = func(t *Trace, v *Violation) bool {
		runSigs = append(runSigs, v.Sig)
		if handle(t, v) {
			stop = true
		}
		return stop
	}
	// exhaustive part
	for i := shard; i < p.Exh && !stop; i += nshard {
		if time.Since(start) > budget {
			st.Exhaustive = false
			st.Probe("budget-cut-exhaustive")
			break
		}
		t := p.ExhGen(i)
		t.Prop = prop
		st.Runs++
		if v := Execute(p, t, st); v != nil {
			stop = handle(t, v)
		}
	}
	firstRun := shard
	if WorkerFromRun > firstRun {
		firstRun = WorkerFromRun
	}
	for run := firstRun; (p.Runs == 0 || run < p.Runs) && !stop; run += nshard {
		if time.Since(start) > budget {
			break
		}
		t := p.Gen(seed, run)
		st.Runs++
		e0, s0 := st.Evals, st.Steps
		runSigs = runSigs[:0]
		tj, _ := jsonOf(t)
		v := Execute(p, t, st)
		if v != nil {
			runSigs = append(runSigs, v.Sig)
			stop = handle(t, v)
		}
		if digest != nil {
			h := fnv.New64a()
			h.Write([]byte(tj))
			extra := ""
			if t.Sched != nil {
				extra = fmt.Sprint(" picks=", len(t.Sched.Picks), ":", hashInts(t.Sched.Picks))
			}
			sort.Strings(runSigs)
			fmt.Fprintf(digest, "seed=%d run=%d trace=%016x evals=%d steps=%d sigs=%v%s\n", seed, run, h.Sum64(), st.Evals-e0, st.Steps-s0, runSigs, extra)
		}
		if digest != nil {
			stop = false
			rep.Violations = nil
		}
	}
	for _, k := range known {
		rep.KnownHits = append(rep.KnownHits, *k)
	}
	sort.Slice(rep.KnownHits, func(i, j int) bool { return rep.KnownHits[i].Sig < rep.KnownHits[j].Sig })
	st.Seal()
	rep.WallS = time.Since(start).Seconds()
	return writeReport(rep, out)
}

func writeReport(rep *WorkerReport, out string) int {
	b, _ := json.Marshal(rep)
	if err := os.WriteFile(out, b, 0o644); err != nil {
		fmt.Fprintln(os.Stderr, "harness:", err)
		return 2
	}
	return 0
}

func parentMain(prop, tier string, seed uint64) int {
	pf := plans[prop]
	if pf == nil {
		fmt.Fprintln(os.Stderr, "harness: no check for property", prop)
		return 2
	}
	p := pf(tier)
	start := time.Now()
	fmt.Printf("VERIF_SEED=%d property=%s tier=%s engine=%s\n", seed, prop, tier, p.Engine)
	if p.Custom != nil {
		return p.Custom(p, prop, tier, seed)
	}
	n := workers()
	self, _ := os.Executable()
	tmp := filepath.Join(scratchDir(), "tmp")
	os.MkdirAll(tmp, 0o755)
	type wres struct {
		rep *WorkerReport
		err error
		log string
	}
	results := make([]wres, n)
	done := make(chan int, n)
	for i := 0; i < n; i++ {
		go func(i int) {
			outp := filepath.Join(tmp, fmt.Sprintf("w%d.json", i))
			cmd := exec.Command(self, "-worker", "-prop", prop, "-tier", tier, "-seed", fmt.Sprint(seed),
				"-shard", fmt.Sprint(i), "-nshard", fmt.Sprint(n), "-out", outp)
			cmd.Env = os.Environ()
			ob, err := cmd.CombinedOutput()
			results[i].log = string(ob)
			if err != nil {
				results[i].err = err
				done <- i
				return
			}
			b, err := os.ReadFile(outp)
			if err != nil {
				results[i].err = err
				done <- i
				return
			}
			var r WorkerReport
			if err := json.Unmarshal(b, &r); err != nil {
				results[i].err = err
			}
			results[i].rep = &r
			done <- i
		}(i)
	}
	for i := 0; i < n; i++ {
		<-done
	}
	total := NewStats()
	total.Exhaustive = p.Exh > 0
	var viols []*Trace
	knownAgg := map[string]*KnownHit{}
	for i, r := range results {
		if r.err != nil {
			fmt.Fprintf(os.Stderr, "harness: worker %d failed: %v\n%s\n", i, r.err, r.log)
			return 2
		}
		total.Merge(r.rep.Stats)
		if r.rep.Stats.Probes["budget-cut-exhaustive"] > 0 {
			total.Exhaustive = false
		}
		viols = append(viols, r.rep.Violations...)
		for _, k := range r.rep.KnownHits {
			a := knownAgg[k.Sig]
			if a == nil {
				kk := k
				knownAgg[k.Sig] = &kk
			} else {
				a.Count += k.Count
			}
		}
	}
	return finish(p, prop, tier, seed, total, viols, knownAgg, time.Since(start))
}

// finish prints the verdict lines, writes evidence, returns the exit code.
func finish(p *Plan, prop, tier string, seed uint64, total *Stats, viols []*Trace, knownAgg map[string]*KnownHit, wall time.Duration) int {
	sigs := make([]string, 0, len(knownAgg))
	for s := range knownAgg {
		sigs = append(sigs, s)
	}
	sort.Strings(sigs)
	for _, s := range sigs {
		k := knownAgg[s]
		fmt.Printf("KNOWN-FINDING: property=%s %s %s (hit %d times)\n", prop, k.Sig, k.What, k.Count)
	}
	// every listed finding of this property gets its line, also when this run's exploration did not reach it
	if all, err := LoadFindings(verifDir()); err == nil {
		for _, fd := range all {
			if fd.Status == "known" && fd.Property == prop && knownAgg[fd.Sig] == nil {
				fmt.Printf("KNOWN-FINDING: property=%s %s %s (listed; not reached by this run)\n", prop, fd.Sig, fd.What)
			}
		}
	}
	// zero probes
	var zero []string
	for _, name := range p.ExpectProbes {
		if total.Probes[name] == 0 {
			zero = append(zero, name)
		}
	}
	for _, z := range zero {
		fmt.Printf("WARNING: probe %q stayed at zero - the exploration is not reaching it\n", z)
	}
	replayDir := filepath.Join(verifDir(), "replays")
	os.MkdirAll(replayDir, 0o755)
	seen := map[string]bool{}
	nv := 0
	for _, t := range viols {
		if seen[t.Sig] {
			continue
		}
		seen[t.Sig] = true
		nv++
		name := fmt.Sprintf("%s-seed%d-run%d-%s.json", prop, seed, t.Run, sanitize(t.Sig))
		path := filepath.Join(replayDir, name)
		if err := t.Save(path); err != nil {
			fmt.Fprintln(os.Stderr, "harness:", err)
			return 2
		}
		fmt.Printf("VIOLATION property=%s replay=%s\n", prop, path)
		fmt.Printf("  signature: %s\n  %s\n", t.Sig, t.What)
		// the replay file must reproduce the violation in a fresh process
		if nv <= 4 && os.Getenv("VERIF_NO_REPLAY_VERIFY") == "" {
			self, _ := os.Executable()
			cmd := exec.Command(self, "-replay", path, "-prop", prop)
			cmd.Env = os.Environ()
			ob, err := cmd.CombinedOutput()
			code := 0
			if ee, ok := err.(*exec.ExitError); ok {
				code = ee.ExitCode()
			}
			switch {
			case code == 1 && strings.Contains(string(ob), "signature: "+t.Sig):
				fmt.Printf("  replay verified in a fresh process (same signature)\n")
			case code == 1:
				fmt.Printf("  replay in a fresh process reports a violation with another signature:\n%s\n", indent(tail(string(ob), 600)))
			default:
				// seen with a library change that keeps state in a package-level variable (a sync.Pool of
				// buffers): the run then depends on the runs this worker process executed before it, which a
				// one-run trace does not carry; the whole check with the same VERIF_SEED shows it again.
				// With the race engine it means the Go runtime did not produce the interleaving again.
				fmt.Printf("  WARNING: replay in a fresh process did not reproduce (exit %d); the violation then depends on state left in the process by earlier runs, or (race engine) on the runtime's schedule - rerun the check with VERIF_SEED=%d:\n%s\n", code, seed, indent(tail(string(ob), 600)))
			}
		}
	}
	if err := writeEvidence(p, prop, tier, seed, total, nv, sigs, zero, wall); err != nil {
		fmt.Fprintln(os.Stderr, "harness: evidence:", err)
		return 2
	}
	fmt.Printf("%s %s: %d executions, %d distinct non-trivial, %d steps, %d inconclusive, %.1fs, violations=%d known=%d\n",
		prop, tier, total.Evals, len(total.Finger), total.Steps, total.Inconclusive, wall.Seconds(), nv, len(sigs))
	if nv > 0 {
		return 1
	}
	return 0
}

func sanitize(s string) string {
	var b strings.Builder
	for _, r := range s {
		switch {
		case r >= 'a' && r <= 'z', r >= 'A' && r <= 'Z', r >= '0' && r <= '9', r == '-', r == '_':
			b.WriteRune(r)
		default:
			b.WriteByte('_')
		}
	}
	out := b.String()
	if len(out) > 80 {
		out = out[:80]
	}
	return out
}

func writeEvidence(p *Plan, prop, tier string, seed uint64, total *Stats, nviol int, known []string, zero []string, wall time.Duration) error {
	samples := make([]any, 0, len(total.Samples))
	for _, s := range total.Samples {
		var v any
		json.Unmarshal(s, &v)
		samples = append(samples, v)
	}
	if len(samples) == 0 {
		samples = append(samples, "no sample recorded")
	}
	hours := wall.Hours()
	if hours <= 0 {
		hours = 1e-9
	}
	cov := map[string]any{
		"evaluations":          total.Evals,
		"distinct_nontrivial":  len(total.Finger),
		"rule":                 p.Rule,
		"samples":              samples,
		"exhaustive":           total.Exhaustive,
		"generated_runs":       total.Runs,
		"runs_per_hour":        int64(float64(total.Runs) / hours),
		"evaluations_per_hour": int64(float64(total.Evals) / hours),
		"sim_steps":            total.Steps,
		"simulated_time":       "none: no code path under this property reads a clock; logical time is the step count (sim_steps)",
		"faults_fired":         total.Faults,
		"probes":               total.Probes,
		"probes_at_zero":       zero,
		"inconclusive":         total.Inconclusive,
		"known_findings_hit":   known,
		"components": map[string]any{
			"real":     p.Real,
			"stub":     p.Stub,
			"schedule": p.Schedule,
		},
	}
	for k, v := range p.ExtraCov {
		cov[k] = v
	}
	ev := map[string]any{
		"property_id": prop,
		"tier":        tier,
		"seed":        seed,
		"level":       p.Level,
		"coverage":    cov,
		"assumptions": p.Assume,
		"wall_s":      wall.Seconds(),
		"violations":  nviol,
	}
	b, err := json.MarshalIndent(ev, "", " ")
	if err != nil {
		return err
	}
	dir := filepath.Join(verifDir(), "evidence")
	os.MkdirAll(dir, 0o755)
	if tier == "thorough" {
		// evidence/<id>.json is rewritten by every run; the last thorough run is also kept on its own
		os.MkdirAll(filepath.Join(dir, "thorough"), 0o755)
		os.WriteFile(filepath.Join(dir, "thorough", prop+".json"), b, 0o644)
	}
	return os.WriteFile(filepath.Join(dir, prop+".json"), b, 0o644)
}

// Replay executes one trace file and reports like a check does.
func Replay(prop, path string) int {
	t, err := LoadTrace(path)
	if err != nil {
		fmt.Fprintln(os.Stderr, "harness:", err)
		return 2
	}
	if prop == "" {
		prop = t.Prop
	}
	pf := plans[prop]
	if pf == nil {
		fmt.Fprintln(os.Stderr, "harness: no check for property", prop)
		return 2
	}
	p := pf("quick")
	if p.ReplayFn != nil {
		return p.ReplayFn(p, t, path)
	}
	st := NewStats()
	v := Execute(p, t, st)
	if v == nil {
		fmt.Printf("replay: property=%s trace=%s: no violation\n", prop, path)
		return 0
	}
	fmt.Printf("VIOLATION property=%s replay=%s\n  signature: %s\n  %s\n", prop, path, v.Sig, v.What)
	if t.Sig != "" && t.Sig != v.Sig {
		fmt.Printf("  note: recorded signature was %s\n", t.Sig)
	}
	return 1
}

// SelfTest is filled in by selftest.go.
var SelfTest = func() int { fmt.Println("selftest: not built"); return 2 }

func hashInts(xs []int) string {
	h := fnv.New64a()
	for _, x := range xs {
		h.Write([]byte{byte(x), byte(x >> 8)})
	}
	return fmt.Sprintf("%016x", h.Sum64())
}

func indent(s string) string {
	return "    " + strings.ReplaceAll(strings.TrimSpace(s), "\n", "\n    ")
}
