package h

import (
	"encoding/json"
	"fmt"
	"os"
	"os/exec"
	"path/filepath"
	"sort"
	"strings"
)

// Determinism self-test: the same (seed, property, run) must give the same
// generated trace, the same verdicts, the same step counts and (C08) the same
// schedule in fresh processes at different GOMAXPROCS and worker counts.
func init() { SelfTest = selfTest }

type stCfg struct {
	gomax  int
	nshard int
}

func selfTest() int {
	scr := scratchDir()
	tmp := filepath.Join(scr, "tmp")
	os.MkdirAll(tmp, 0o755)
	self, _ := os.Executable()
	props := []string{"C02", "C03", "C04", "C05", "C06", "C09", "C12", "C13", "C14", "C16", "C20", "C08"}
	cfgs := []stCfg{{1, 1}, {4, 1}, {16, 16}}
	seeds := []uint64{1, 2, 3}
	runs := map[string]int{"C02": 4, "C03": 12, "C04": 40, "C05": 40, "C06": 12, "C09": 6, "C12": 40, "C13": 4, "C14": 6, "C16": 12, "C20": 40, "C08": 40}
	if only := os.Getenv("VERIF_SELFTEST_PROPS"); only != "" {
		props = strings.Split(only, ",")
	}
	bad := 0
	totalRuns := 0
	for _, prop := range props {
		var ref []string
		refName := ""
		for _, seed := range seeds {
			for _, c := range cfgs {
				for rep := 0; rep < 2; rep++ {
					dig := filepath.Join(tmp, fmt.Sprintf("digest-%s-%d-%d-%d-%d", prop, seed, c.gomax, c.nshard, rep))
					os.Remove(dig)
					for sh := 0; sh < c.nshard; sh++ {
						outp := filepath.Join(tmp, "selftest-out.json")
						var cmd *exec.Cmd
						env := append(os.Environ(), "VERIF_DIGEST="+dig, fmt.Sprintf("VERIF_MAXRUNS=%d", runs[prop]), fmt.Sprintf("GOMAXPROCS=%d", c.gomax))
						if prop == "C08" {
							args, _ := json.Marshal(map[string]any{"prop": prop, "tier": "quick", "seed": seed, "shard": sh, "nshard": c.nshard, "out": outp})
							cmd = exec.Command(filepath.Join(scr, "schedw.test"), "-test.run", "^TestSchedWorker$", "-test.timeout", "1h")
							env = append(env, "VERIF_SCHED_ARGS="+string(args))
						} else {
							cmd = exec.Command(self, "-worker", "-prop", prop, "-tier", "quick", "-seed", fmt.Sprint(seed), "-shard", fmt.Sprint(sh), "-nshard", fmt.Sprint(c.nshard), "-out", outp)
						}
						cmd.Env = env
						if ob, err := cmd.CombinedOutput(); err != nil {
							fmt.Fprintf(os.Stderr, "selftest: %s worker failed: %v\n%s\n", prop, err, ob)
							return 2
						}
					}
					b, _ := os.ReadFile(dig)
					lines := strings.Split(strings.TrimSpace(string(b)), "\n")
					sort.Strings(lines)
					// keep only this seed's lines
					name := fmt.Sprintf("seed=%d gomaxprocs=%d workers=%d rep=%d", seed, c.gomax, c.nshard, rep)
					key := fmt.Sprintf("%d", seed)
					_ = key
					if rep == 0 && c == cfgs[0] {
						ref, refName = lines, name
						totalRuns += len(lines)
						continue
					}
					if len(lines) != len(ref) {
						fmt.Printf("selftest: %s: %s has %d digest lines, %s has %d\n", prop, name, len(lines), refName, len(ref))
						bad++
						continue
					}
					for i := range lines {
						if lines[i] != ref[i] {
							fmt.Printf("selftest: %s NONDETERMINISM\n  %s: %s\n  %s: %s\n", prop, refName, ref[i], name, lines[i])
							bad++
							break
						}
					}
				}
			}
		}
		fmt.Printf("selftest: %s: %d run digests x 3 seeds compared across GOMAXPROCS {1,4,16}, workers {1,16}, 2 fresh processes each\n", prop, runs[prop])
	}
	if bad > 0 {
		fmt.Printf("selftest: FAILED (%d divergences)\n", bad)
		return 1
	}
	fmt.Printf("selftest: ok (%d reference run digests, each re-checked in 5 more process configurations)\n", totalRuns)
	return 0
}
