package h

import (
	"bytes"
	"errors"
	"fmt"
	"os"
	"path/filepath"
	"strings"

	"github.com/ipfs/go-cid"
	"github.com/ipld/go-car/v2/verifbridge"
	"verif/sim"
)

// opResult is what one API call returned.
type opResult struct {
	err  error
	b    bool
	data []byte
	n    int
	keys []cid.Cid
}

// sess is one executing session: real store + model + disk observation.
type sess struct {
	t     *Trace
	st    *Stats
	env   *Env
	store Store
	m     *Model
	alpha []Blk // every block the trace mentions plus near misses; audited after each mutating op
	opIdx int
	fp    []string
	nontr bool
	// results of successful Gets that the caller keeps: they must not change under later calls
	held []heldGet
}

type heldGet struct {
	spec BlkSpec
	data []byte
	want []byte
}

func safeCall(f func()) (pv any) {
	defer func() {
		if r := recover(); r != nil {
			if ie, ok := r.(*InfraError); ok {
				panic(ie)
			}
			pv = r
		}
	}()
	f()
	return nil
}

// nearMisses returns, for each (seed,size) of specs, the other kinds over the same bytes.
func nearMisses(specs []BlkSpec) []BlkSpec {
	seen := map[BlkSpec]bool{}
	var out []BlkSpec
	add := func(s BlkSpec) {
		if !seen[s] {
			seen[s] = true
			out = append(out, s)
		}
	}
	for _, s := range specs {
		add(s)
	}
	base := append([]BlkSpec(nil), out...)
	for _, s := range base {
		switch s.Kind {
		case "raw", "cbor", "pb", "v0":
			add(BlkSpec{"cbor", s.Seed, s.Size})
			add(BlkSpec{"v0", s.Seed, s.Size})
			add(BlkSpec{"idsha", s.Seed, s.Size})
		case "dbl":
			add(BlkSpec{"shasha", s.Seed, s.Size})
		case "shasha":
			add(BlkSpec{"dbl", s.Seed, s.Size})
		case "idsha":
			add(BlkSpec{"raw", s.Seed, s.Size})
		case "t20":
			add(BlkSpec{"t16", s.Seed, s.Size})
			add(BlkSpec{"raw", s.Seed, s.Size})
		}
	}
	return out
}

func traceSpecs(t *Trace) []BlkSpec {
	var out []BlkSpec
	for _, op := range t.Ops {
		out = append(out, op.Blks...)
	}
	if t.Crash != nil {
		out = append(out, t.Crash.Cont...)
	}
	return out
}

func errStr(err error) string {
	if err == nil {
		return "nil"
	}
	return err.Error()
}

// call performs op on the real store.
func (s *sess) call(op Op) (res opResult, pv any) {
	var key cid.Cid
	if len(op.Blks) > 0 {
		key = MakeBlock(op.Blks[0]).Cid
	}
	pv = safeCall(func() {
		switch op.Kind {
		case "put":
			res.err = s.store.Put(MakeBlock(op.Blks[0]))
		case "putmany":
			res.err = s.store.PutMany(MakeBlocks(op.Blks))
		case "has":
			res.b, res.err = s.store.Has(key)
		case "get":
			res.data, res.err = s.store.Get(key)
		case "getsize":
			res.n, res.err = s.store.GetSize(key)
		case "keys":
			res.keys, res.err = s.store.Keys()
		case "roots":
			res.keys, res.err = s.store.Roots()
		case "finalize":
			res.err = s.store.Finalize()
		case "finalize_ro":
			res.err = s.store.FinalizeReadOnly()
		case "close":
			res.err = s.store.Close()
		case "discard":
			s.store.Discard()
		case "restart_clean", "restart_final":
			// close the instance (Discard / Finalize) and reopen the same file with the same roots and options;
			// a no-op unless the store is certainly open
			if s.m.State != stOpen {
				return
			}
			if op.Kind == "restart_final" {
				res.err = s.store.Finalize()
			} else {
				s.store.Discard()
			}
			if res.err == nil {
				var ns Store
				roots := s.t.Cfg.RootCids()
				if op.Arg == 1 && len(roots) > 1 {
					// the same roots in another order: resumption accepts them, the file keeps its own order
					roots = append(roots[1:len(roots):len(roots)], roots[0])
				}
				cfg := s.m.Cfg
				if op.Arg == 2 {
					// the next instance is given a tighter index CID limit than the file was written under:
					// what is in the file stays there, only new puts are judged by the new limit
					cfg.MaxIdxCid = 40
				}
				ns, res.err = OpenStoreRoots(s.env, cfg, roots)
				if res.err == nil {
					s.m.Cfg = cfg
				}
				sim.CurrentFS = s.env.FS
				if res.err == nil {
					s.store = ns
				}
			}
		default:
			panic(&InfraError{"unknown op " + op.Kind})
		}
	})
	return
}

// accept evaluates res against the model assuming the store is in typestate st.
// It returns whether the outcome is permitted and the set of successor states.
// apply is non-nil when accepting requires the model to change.
func (s *sess) accept(st int, op Op, res opResult) (ok bool, next int, apply func(), why string) {
	m := s.m
	var key cid.Cid
	var blk Blk
	if len(op.Blks) > 0 {
		blk = MakeBlock(op.Blks[0])
		key = blk.Cid
	}
	readable := st == stOpen || st == stRO
	ident := len(op.Blks) > 0 && IsIdentity(key)
	switch op.Kind {
	case "put", "putmany":
		if st != stOpen {
			if res.err == nil {
				return false, 0, nil, "write succeeded on a store that is finalized/closed"
			}
			return true, st, nil, ""
		}
		// open: walk the batch
		var stored []Blk
		tmp := &Model{Cfg: m.Cfg, Secs: append([]Blk(nil), m.Secs...)}
		for i, sp := range op.Blks {
			b := MakeBlock(sp)
			switch tmp.PutVerdict(b) {
			case putStore:
				tmp.Secs = append(tmp.Secs, b)
				stored = append(stored, b)
			case putSkip:
			case putReject:
				if res.err == nil {
					return false, 0, nil, fmt.Sprintf("over-long CID %s accepted (block %d of batch)", b.Spec, i)
				}
				return true, stOpen, func() { m.Secs = tmp.Secs }, ""
			case putSkipOrRej:
				if len(op.Blks) > 1 {
					return true, stOpen, nil, "inconclusive"
				}
				return true, stOpen, nil, ""
			}
		}
		if res.err != nil {
			return false, 0, nil, fmt.Sprintf("put failed: %v", res.err)
		}
		return true, stOpen, func() { m.Secs = tmp.Secs }, ""
	case "has":
		if !readable {
			if ident || res.err != nil {
				return true, st, nil, ""
			}
			return false, 0, nil, "Has returned a result after close"
		}
		if res.err != nil {
			return false, 0, nil, fmt.Sprintf("Has failed: %v", res.err)
		}
		want := m.Present(key)
		if ident && !m.Cfg.StoreID {
			want = true
		}
		if res.b != want {
			return false, 0, nil, fmt.Sprintf("Has(%s)=%v, model says %v", blk.Spec, res.b, want)
		}
		return true, st, nil, ""
	case "get":
		if !readable {
			if ident || res.err != nil {
				return true, st, nil, ""
			}
			return false, 0, nil, "Get returned a result after close"
		}
		if ident && !m.Cfg.StoreID {
			if res.err != nil || !bytes.Equal(res.data, Digest(key)) {
				return false, 0, nil, fmt.Sprintf("Get(identity %s) = %x,%v; want its digest", blk.Spec, res.data, res.err)
			}
			return true, st, nil, ""
		}
		want, present := m.Lookup(key)
		if !present {
			if res.err == nil {
				return false, 0, nil, fmt.Sprintf("Get(%s) returned %d bytes for a key never stored", blk.Spec, len(res.data))
			}
			if !IsNotFound(res.err) {
				if errors.Is(res.err, verifbridge.ErrSectionTooLarge) {
					return false, 0, nil, fmt.Sprintf("section-limit: Get(%s) of an absent key sharing a digest with a stored over-limit block failed: %v", blk.Spec, res.err)
				}
				return false, 0, nil, fmt.Sprintf("Get(%s) of an absent key failed with a non-not-found error: %v", blk.Spec, res.err)
			}
			return true, st, nil, ""
		}
		if res.err != nil {
			if errors.Is(res.err, verifbridge.ErrSectionTooLarge) {
				return false, 0, nil, fmt.Sprintf("section-limit: Get(%s) of a stored key failed: %v", blk.Spec, res.err)
			}
			return false, 0, nil, fmt.Sprintf("Get(%s) of a stored key failed: %v", blk.Spec, res.err)
		}
		if !bytes.Equal(res.data, want) {
			return false, 0, nil, fmt.Sprintf("Get(%s) returned wrong bytes (%d bytes, want %d)", blk.Spec, len(res.data), len(want))
		}
		if len(s.held) < 64 && len(res.data) > 0 {
			s.held = append(s.held, heldGet{spec: blk.Spec, data: res.data, want: want})
		}
		return true, st, nil, ""
	case "getsize":
		if !readable {
			if ident || res.err != nil {
				return true, st, nil, ""
			}
			return false, 0, nil, "GetSize returned a result after close"
		}
		want, present := m.Lookup(key)
		if ident {
			if res.err == nil && res.n == len(Digest(key)) {
				return true, st, nil, ""
			}
			if m.Cfg.StoreID && !present && res.err != nil && IsNotFound(res.err) {
				return true, st, nil, ""
			}
			return false, 0, nil, fmt.Sprintf("GetSize(identity %s) = %d,%v", blk.Spec, res.n, res.err)
		}
		if !present {
			if res.err != nil && IsNotFound(res.err) {
				return true, st, nil, ""
			}
			return false, 0, nil, fmt.Sprintf("GetSize(%s) of an absent key = %d,%v", blk.Spec, res.n, res.err)
		}
		if res.err != nil || res.n != len(want) {
			return false, 0, nil, fmt.Sprintf("GetSize(%s) = %d,%v; want %d", blk.Spec, res.n, res.err, len(want))
		}
		return true, st, nil, ""
	case "keys":
		if res.err == ErrUnsupported {
			return true, st, nil, ""
		}
		if !readable {
			if res.err != nil {
				return true, st, nil, ""
			}
			return false, 0, nil, "AllKeysChan returned a result after close"
		}
		if res.err != nil {
			return false, 0, nil, fmt.Sprintf("AllKeysChan failed: %v", res.err)
		}
		got, want := sortedCidHex(res.keys), m.Keys()
		if !sameStrings(got, want) {
			return false, 0, nil, fmt.Sprintf("AllKeysChan listed %d keys %v, model has %d %v", len(got), got, len(want), want)
		}
		return true, st, nil, ""
	case "roots":
		if !readable {
			return true, st, nil, ""
		}
		if res.err != nil || !sameCids(res.keys, m.Roots) {
			return false, 0, nil, fmt.Sprintf("Roots() = %v,%v; want %v", res.keys, res.err, m.Roots)
		}
		return true, st, nil, ""
	case "finalize":
		switch st {
		case stOpen:
			if res.err != nil {
				return false, 0, nil, fmt.Sprintf("Finalize of an open store failed: %v", res.err)
			}
			return true, stClosed, nil, ""
		case stRO:
			// "after Finalize ... every lookup returns an error": also when the call itself reports that
			// the store was finalized before (Finalize is FinalizeReadOnly followed by Close)
			return true, stClosed, nil, ""
		}
		return true, stClosed, nil, ""
	case "finalize_ro":
		if res.err == ErrUnsupported {
			return true, st, nil, ""
		}
		switch st {
		case stOpen:
			if res.err != nil {
				return false, 0, nil, fmt.Sprintf("FinalizeReadOnly of an open store failed: %v", res.err)
			}
			return true, stRO, nil, ""
		case stRO:
			return true, stRO | stClosed, nil, ""
		}
		// closed (finalized or discarded): finalizing writes the index and the header - "every write
		// returns an error"; a call that reports success on a discarded store promises a finalized file
		if st == stClosed && res.err == nil {
			return false, 0, nil, "FinalizeReadOnly reported success on a store that is closed"
		}
		return true, stClosed, nil, ""
	case "close":
		if res.err == ErrUnsupported {
			return true, st, nil, ""
		}
		switch st {
		case stOpen:
			if res.err == nil {
				return true, stClosed, nil, ""
			}
			return true, stOpen, nil, ""
		case stRO:
			if res.err != nil {
				return false, 0, nil, fmt.Sprintf("Close after FinalizeReadOnly failed: %v", res.err)
			}
			return true, stClosed, nil, ""
		}
		return true, stClosed, nil, ""
	case "discard":
		if s.t.Cfg.Store == "sc" {
			return true, st, nil, "" // abandoning a StorageCar instance is not an API call
		}
		return true, stClosed, nil, ""
	case "restart_clean", "restart_final":
		// only generated while the store is certainly open; the resumed store is open and holds the same sections
		if st != stOpen {
			return true, st, nil, "inconclusive"
		}
		if res.err != nil {
			return false, 0, nil, fmt.Sprintf("closing and reopening the same file with the same roots and options failed: %v", res.err)
		}
		return true, stOpen, nil, ""
	}
	panic(&InfraError{"accept: unknown op " + op.Kind})
}

// step runs one op and checks it against the model.
func (s *sess) step(op Op, audit bool) *Violation {
	d := s.env.Disk()
	before := 0
	if d != nil {
		d.CurOp = s.opIdx
		before = d.MutCount()
	}
	pre := s.m.State
	res, pv := s.call(op)
	s.st.Steps++
	if d == nil {
		d = s.env.Disk()
	}
	if pv != nil {
		return viol("session/panic/"+op.Kind, "%s panicked: %v", op.Kind, pv)
	}
	grew := d != nil && d.MutCount() != before
	if d != nil && !audit {
		d.Ack(s.opIdx)
	}
	if pre&stOpen == 0 && grew {
		return viol("session/file-changed-after-close/"+op.Kind, "op #%d %s changed the file although the store was finalized/closed", s.opIdx, op.Kind)
	}
	next := 0
	var apply func()
	var whys []string
	inconclusive := false
	for _, st := range []int{stOpen, stRO, stClosed} {
		if pre&st == 0 {
			continue
		}
		ok, ns, ap, why := s.accept(st, op, res)
		if ok {
			if why == "inconclusive" {
				inconclusive = true
			}
			next |= ns
			if ap != nil {
				apply = ap
			}
		} else {
			whys = append(whys, why)
		}
	}
	if inconclusive {
		s.st.Inconclusive++
	}
	if next == 0 {
		symptom := "model-mismatch"
		switch {
		case strings.Contains(whys[0], "after close"), strings.Contains(whys[0], "finalized/closed"):
			symptom = "use-after-close-succeeded"
		case strings.Contains(whys[0], "wrong bytes"):
			symptom = "wrong-bytes"
		case strings.HasPrefix(whys[0], "section-limit:"):
			symptom = "stored-block-over-section-limit"
		}
		return viol("session/"+symptom+"/"+op.Kind, "op #%d %s%v (result err=%s): %s", s.opIdx, op.Kind, op.Blks, errStr(res.err), strings.Join(whys, " | "))
	}
	if (op.Kind == "put" || op.Kind == "putmany") && pre == stOpen {
		nb := len(s.m.Secs)
		if apply != nil {
			apply()
		}
		if len(s.m.Secs) == nb && grew && res.err == nil {
			return viol("session/skipped-put-wrote/"+op.Kind, "op #%d %s%v stored nothing per the model but wrote to the file", s.opIdx, op.Kind, op.Blks)
		}
		if len(s.m.Secs) != nb {
			s.nontr = true
		}
	} else if apply != nil {
		apply()
	}
	if next != pre {
		s.nontr = true
	}
	s.m.State = next
	return nil
}

func isMutating(k string) bool {
	switch k {
	case "put", "putmany", "finalize", "finalize_ro", "close", "discard", "restart_clean", "restart_final":
		return true
	}
	return false
}

// RunSessionC04 executes a history against store and model.
func RunSessionC04(t *Trace, st *Stats) *Violation {
	s := &sess{t: t, st: st, env: NewEnv(), m: NewModel(t.Cfg)}
	s.alpha = MakeBlocks(nearMisses(traceSpecs(t)))
	var err error
	pv := safeCall(func() { s.store, err = OpenStore(s.env, t.Cfg) })
	if pv != nil {
		return viol("session/panic/open", "open panicked: %v", pv)
	}
	if err != nil {
		return viol("session/open-failed/fresh", "opening a fresh store failed: %v", err)
	}
	prev := sim.CurrentFS
	sim.CurrentFS = s.env.FS
	defer func() { sim.CurrentFS = prev }()
	st.Evals++
	for i, op := range t.Ops {
		s.opIdx = i + 1
		if v := s.step(op, false); v != nil {
			return v
		}
		s.fp = append(s.fp, fmt.Sprintf("%s:%d", op.Kind, s.m.State))
		if isMutating(op.Kind) {
			for _, b := range s.alpha {
				for _, k := range []string{"has", "get", "getsize"} {
					if v := s.step(Op{Kind: k, Blks: []BlkSpec{b.Spec}}, true); v != nil {
						v.What = "audit after " + v.What
						return v
					}
				}
			}
			if t.Cfg.Store == "rw" {
				if v := s.step(Op{Kind: "keys"}, true); v != nil {
					v.What = "audit after " + v.What
					return v
				}
			}
		}
	}
	for _, hg := range s.held {
		if !bytes.Equal(hg.data, hg.want) {
			return viol("session/wrong-bytes/held-result", "the bytes returned by an earlier Get(%s) changed under later calls (the result aliases storage that was reused)", hg.spec)
		}
	}
	if s.nontr {
		st.Mark("c04", cfgKey(t.Cfg), strings.Join(s.fp, ","), fmt.Sprint(len(s.m.Secs)))
	}
	st.Sample(map[string]any{"cfg": t.Cfg, "ops": t.Ops})
	return nil
}

func cfgKey(c Config) string {
	return fmt.Sprintf("%s|%d|%d|%x|%v%v%v%v|%d|%d", c.Store, c.DataPad, c.IndexPad, c.IndexCodec, c.StoreID, c.WholeCIDs, c.AllowDup, c.CarV1, c.MaxIdxCid, len(c.Roots))
}

// RunSessionC05 executes a put history ending in Finalize and judges the final image.
func RunSessionC05(t *Trace, st *Stats) *Violation {
	env := NewEnv()
	m := NewModel(t.Cfg)
	var store Store
	var err error
	prev := sim.CurrentFS
	sim.CurrentFS = env.FS
	defer func() { sim.CurrentFS = prev }()
	if pv := safeCall(func() { store, err = OpenStore(env, t.Cfg) }); pv != nil {
		return viol("session/panic/open", "open panicked: %v", pv)
	}
	if err != nil {
		return viol("session/open-failed/fresh", "opening a fresh store failed: %v", err)
	}
	st.Evals++
	finalized := false
	for i, op := range t.Ops {
		if d := env.Disk(); d != nil {
			d.CurOp = i + 1
		}
		st.Steps++
		switch op.Kind {
		case "put", "putmany":
			if finalized {
				continue
			}
			var perr error
			pv := safeCall(func() {
				if op.Kind == "put" {
					perr = store.Put(MakeBlock(op.Blks[0]))
				} else {
					perr = store.PutMany(MakeBlocks(op.Blks))
				}
			})
			if pv != nil {
				return viol("session/panic/"+op.Kind, "%s panicked: %v", op.Kind, pv)
			}
		batch:
			for _, sp := range op.Blks {
				b := MakeBlock(sp)
				switch m.PutVerdict(b) {
				case putStore:
					m.Secs = append(m.Secs, b)
				case putSkip:
				default:
					break batch // reject: the batch stops here
				}
			}
			_ = perr // error-ness of puts is C04's business; here only the image is judged
		case "finalize":
			if finalized {
				continue
			}
			var ferr error
			if pv := safeCall(func() { ferr = store.Finalize() }); pv != nil {
				return viol("session/panic/finalize", "Finalize panicked: %v", pv)
			}
			if ferr != nil {
				return viol("session/finalize-failed/fault-free", "Finalize failed without any fault: %v", ferr)
			}
			finalized = true
		}
	}
	if !finalized {
		st.Inconclusive++
		return nil
	}
	d := env.Disk()
	if d == nil {
		if t.Cfg.Store == "dw" && len(m.Secs) == 0 {
			// a deferred writer that never stored anything may legitimately have created no file
			// (it does create one when a Put was attempted; see C20)
			st.Probe("c05:deferred-no-file")
			return nil
		}
		return viol("session/archive-malformed/no-file", "no file exists after Finalize")
	}
	image := d.MustBytes()
	rep, v := checkImage("session", t.Cfg, m.Roots, m.Secs, nil, true, image)
	if v != nil {
		return v
	}
	if rep.TailLen > 0 {
		st.Probe("c05:bytes-after-index")
	}
	if t.Run%4 == 0 || t.Run < 0 {
		dir := os.Getenv("VERIF_SCR")
		if dir == "" {
			dir = os.TempDir()
		}
		app, verr := VerifierAccepts(filepath.Join(dir, "tmp"), m.Roots, m.Secs, image)
		if app {
			st.Probe("c05:verifier-applicable")
			if verr != nil {
				return viol("session/archive-malformed/verifier-rejects", "lib.VerifyCar rejects the finalized file although every root is stored: %v", verr)
			}
		}
	}
	if len(m.Secs) > 0 {
		st.Mark("c05", cfgKey(t.Cfg), fmt.Sprint(len(m.Secs)), fmt.Sprint(len(image)))
	}
	st.Probe("c05:store=" + t.Cfg.Store)
	st.Sample(map[string]any{"cfg": t.Cfg, "ops": t.Ops, "image_len": len(image), "sections": len(m.Secs)})
	return nil
}
