package h

import "time"

// Minimise shrinks a violating trace by delta debugging while the violation
// signature stays the same (and is not a known finding). Bounded by wall time.
// minimiseDeadline is the deadline of the minimisation in progress (one per process at a time);
// engine-specific shrinkers consult it so that they stop producing candidates once it has passed.
var minimiseDeadline time.Time

func minimiseExpired() bool { return !minimiseDeadline.IsZero() && time.Now().After(minimiseDeadline) }

func Minimise(p *Plan, t *Trace, findings []Finding) *Trace {
	sig := t.Sig
	deadline := time.Now().Add(20 * time.Second)
	minimiseDeadline = deadline
	try := func(c *Trace) bool {
		if time.Now().After(deadline) {
			return false
		}
		st := NewStats()
		if c.Crash != nil {
			c.Crash.All = false
		}
		if c.Sched != nil {
			c.Sched.Picks = nil // the schedule is re-drawn from PickSeed for every candidate
		}
		var v *Violation
		pv := safeCall(func() { v = Execute(p, c, st) })
		if pv != nil || v == nil {
			return false
		}
		if v.Sig != sig {
			return false
		}
		c.Sig, c.What = v.Sig, v.What
		return true
	}
	expired := func() bool { return time.Now().After(deadline) }
	cur := t
	changed := true
	for changed && time.Now().Before(deadline) {
		changed = false
		// drop chunks of ops, then single ops
		for chunk := len(cur.Ops) / 2; chunk >= 1; chunk /= 2 {
			for i := 0; i+chunk <= len(cur.Ops); {
				if expired() {
					break
				}
				c := cur.Clone()
				c.Ops = append(append([]Op(nil), cur.Ops[:i]...), cur.Ops[i+chunk:]...)
				if try(c) {
					cur = c
					changed = true
				} else {
					i++
				}
			}
		}
		// drop blocks from batches
		for i := range cur.Ops {
			for j := 0; len(cur.Ops[i].Blks) > 1 && j < len(cur.Ops[i].Blks); {
				if expired() {
					break
				}
				c := cur.Clone()
				c.Ops[i].Blks = append(append([]BlkSpec(nil), cur.Ops[i].Blks[:j]...), cur.Ops[i].Blks[j+1:]...)
				if try(c) {
					cur = c
					changed = true
				} else {
					j++
				}
			}
		}
		// shrink block sizes
		for i := range cur.Ops {
			for j := range cur.Ops[i].Blks {
				for _, n := range []int{0, 1, 8} {
					if cur.Ops[i].Blks[j].Size > n {
						if expired() {
							break
						}
						c := cur.Clone()
						c.Ops[i].Blks[j].Size = n
						if try(c) {
							cur = c
							changed = true
							break
						}
					}
				}
			}
		}
		// default the configuration field by field
		mods := []func(*Config){
			func(c *Config) { c.DataPad = 0 }, func(c *Config) { c.IndexPad = 0 }, func(c *Config) { c.IndexCodec = 0 },
			func(c *Config) { c.StoreID = false }, func(c *Config) { c.WholeCIDs = false }, func(c *Config) { c.AllowDup = false },
			func(c *Config) { c.CarV1 = false }, func(c *Config) { c.MaxIdxCid = 0 }, func(c *Config) { c.ZeroEOF = false },
			func(c *Config) {
				if len(c.Roots) > 1 {
					c.Roots = c.Roots[:1]
				}
			},
		}
		for _, m := range mods {
			if expired() {
				break
			}
			c := cur.Clone()
			before, _ := jsonOf(c.Cfg)
			m(&c.Cfg)
			after, _ := jsonOf(c.Cfg)
			if before == after {
				continue
			}
			if try(c) {
				cur = c
				changed = true
			}
		}
		// faults, continuation
		for i := 0; i < len(cur.Faults) && len(cur.Faults) > 1; {
			if expired() {
				break
			}
			c := cur.Clone()
			c.Faults = append(append([]FaultSpec(nil), cur.Faults[:i]...), cur.Faults[i+1:]...)
			if try(c) {
				cur = c
				changed = true
			} else {
				i++
			}
		}
		if cur.Crash != nil {
			for i := 0; i < len(cur.Crash.Cont); {
				if expired() {
					break
				}
				c := cur.Clone()
				c.Crash.Cont = append(append([]BlkSpec(nil), cur.Crash.Cont[:i]...), cur.Crash.Cont[i+1:]...)
				if try(c) {
					cur = c
					changed = true
				} else {
					i++
				}
			}
		}
		if p.ExtraShrink != nil {
			if c := p.ExtraShrink(cur, try); c != nil {
				cur = c
				changed = true
			}
		}
	}
	return cur
}
