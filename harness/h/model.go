package h

import (
	"bytes"
	"sort"

	"github.com/ipfs/go-cid"
)

// Typestates of a writable store, as a bit set of the states the store may be in.
const (
	stOpen   = 1 << iota // accepting puts
	stRO                 // FinalizeReadOnly done: readable, not writable, file frozen
	stClosed             // Finalize / Discard / Close done
)

// Model is the reference: an append-only content-addressed list of sections
// plus a typestate. It is written from the documentation of the option set, not
// from the implementation.
type Model struct {
	Cfg   Config
	Roots []cid.Cid
	Secs  []Blk
	State int // bit set of possible typestates
}

func NewModel(cfg Config) *Model {
	return &Model{Cfg: cfg, Roots: cfg.RootCids(), State: stOpen}
}

// Present: is the key of c stored (whole CID when requested, multihash otherwise).
func (m *Model) Present(c cid.Cid) bool {
	for _, s := range m.Secs {
		if m.Cfg.WholeCIDs {
			if s.Cid.Equals(c) {
				return true
			}
		} else if bytes.Equal(s.Cid.Hash(), c.Hash()) {
			return true
		}
	}
	return false
}

// Lookup returns the bytes stored under c's key.
func (m *Model) Lookup(c cid.Cid) ([]byte, bool) {
	for _, s := range m.Secs {
		if m.Cfg.WholeCIDs {
			if s.Cid.Equals(c) {
				return s.Data, true
			}
		} else if bytes.Equal(s.Cid.Hash(), c.Hash()) {
			return s.Data, true
		}
	}
	return nil, false
}

type putVerdict int

const (
	putStore     putVerdict = iota // must return nil and store
	putSkip                        // must return nil and not store
	putReject                      // must return an error and not store
	putSkipOrRej                   // either nil or error, never stored (doc silent)
)

// PutVerdict says what an open store must do with b.
func (m *Model) PutVerdict(b Blk) putVerdict {
	long := uint64(len(b.Cid.Bytes())) > m.Cfg.EffMaxIdxCid()
	if IsIdentity(b.Cid) && !m.Cfg.StoreID {
		// IdStore rule: putting an identity block is a successful no-op, whatever its
		// length - it is never stored, so the index CID size limit does not concern it.
		return putSkip
	}
	if long {
		return putReject
	}
	if !m.Cfg.AllowDup && m.Present(b.Cid) {
		return putSkip
	}
	return putStore
}

// Keys is the expected key listing as a sorted list of hex strings.
func (m *Model) Keys() []string {
	out := make([]string, 0, len(m.Secs))
	for _, s := range m.Secs {
		c := s.Cid
		if !m.Cfg.WholeCIDs {
			c = cid.NewCidV1(cid.Raw, c.Hash())
		}
		out = append(out, cidHex(c))
	}
	sort.Strings(out)
	return out
}

func sortedCidHex(cs []cid.Cid) []string {
	out := make([]string, len(cs))
	for i, c := range cs {
		out[i] = cidHex(c)
	}
	sort.Strings(out)
	return out
}

func sameStrings(a, b []string) bool {
	if len(a) != len(b) {
		return false
	}
	for i := range a {
		if a[i] != b[i] {
			return false
		}
	}
	return true
}

func sameCids(a, b []cid.Cid) bool {
	if len(a) != len(b) {
		return false
	}
	for i := range a {
		if !a[i].Equals(b[i]) {
			return false
		}
	}
	return true
}
