package h

import (
	"bytes"
	"fmt"
	"strings"
	"time"

	"github.com/ipfs/go-cid"
	"verif/sim"
)

// C12: resumption is transparent, mismatched reopen is refused without touching the file.
//
// Trace ops: put / putmany / restart_clean (Discard or abandon, reopen) /
// restart_final (Finalize, reopen) / mismatch (Arg selects the changed field; must be last).

var mismatchKinds = []string{"roots-different", "roots-extra", "roots-missing", "roots-dup-swap", "data-pad", "version", "roots-other-codec"}

// mismatchConfig returns the configuration and roots a mismatching reopen uses,
// or ok=false when that kind does not apply to cfg.
func mismatchConfig(cfg Config, kind string) (Config, []cid.Cid, bool) {
	c := cfg
	c.Roots = append([]BlkSpec(nil), cfg.Roots...)
	fresh := BlkSpec{Kind: "raw", Seed: 991, Size: 17}
	switch kind {
	case "roots-different":
		if len(c.Roots) == 0 {
			return c, nil, false
		}
		c.Roots[len(c.Roots)-1] = fresh
	case "roots-extra":
		c.Roots = append(c.Roots, fresh)
	case "roots-missing":
		if len(c.Roots) == 0 {
			return c, nil, false
		}
		c.Roots = c.Roots[:len(c.Roots)-1]
	case "roots-dup-swap":
		// applies when the file's roots contain a duplicate: replace one copy by a new CID
		idx := -1
		for i := range c.Roots {
			for j := 0; j < i; j++ {
				if c.Roots[i] == c.Roots[j] {
					idx = i
				}
			}
		}
		if idx < 0 {
			return c, nil, false
		}
		c.Roots[idx] = fresh
	case "roots-other-codec":
		// one root replaced by a CID with the same multihash under another codec / CID version
		idx := -1
		for i, r := range c.Roots {
			switch r.Kind {
			case "raw", "cbor", "pb", "v0":
				idx = i
			}
		}
		if idx < 0 {
			return c, nil, false
		}
		other := map[string]string{"raw": "cbor", "cbor": "pb", "pb": "v0", "v0": "raw"}
		c.Roots[idx].Kind = other[c.Roots[idx].Kind]
	case "data-pad":
		if c.CarV1 {
			return c, nil, false
		}
		if c.DataPad == 0 {
			c.DataPad = 9
		} else {
			c.DataPad = 0
		}
	case "version":
		c.CarV1 = !c.CarV1
	default:
		panic(&InfraError{"unknown mismatch kind " + kind})
	}
	return c, c.RootCids(), true
}

func c12Put(store Store, op Op) (err error, pv any) {
	pv = safeCall(func() {
		if op.Kind == "put" {
			err = store.Put(MakeBlock(op.Blks[0]))
		} else {
			err = store.PutMany(MakeBlocks(op.Blks))
		}
	})
	return
}

// RunC12 executes the uninterrupted and the interrupted session and compares.
func RunC12(t *Trace, st *Stats) *Violation {
	prevFS := sim.CurrentFS
	defer func() { sim.CurrentFS = prevFS }()
	cfg := t.Cfg
	st.Evals++
	// 1. uninterrupted reference session
	env0 := NewEnv()
	s0, err := OpenStore(env0, cfg)
	if err != nil {
		return viol("session/open-failed/fresh", "opening a fresh store failed: %v", err)
	}
	sim.CurrentFS = env0.FS
	var errs0 []bool
	for _, op := range t.Ops {
		if op.Kind == "put" || op.Kind == "putmany" {
			e, pv := c12Put(s0, op)
			if pv != nil {
				return viol("session/panic/put", "put panicked: %v", pv)
			}
			errs0 = append(errs0, e != nil)
		}
	}
	if err := s0.Finalize(); err != nil {
		return viol("session/finalize-failed/fault-free", "Finalize failed: %v", err)
	}
	f0 := env0.Disk().MustBytes()

	// 2. interrupted session
	env := NewEnv()
	sim.CurrentFS = env.FS
	store, err := OpenStore(env, cfg)
	if err != nil {
		return viol("session/open-failed/fresh", "opening a fresh store failed: %v", err)
	}
	sim.CurrentFS = env.FS
	pi := 0
	restarts := 0
	var fp []string
	for i, op := range t.Ops {
		st.Steps++
		switch op.Kind {
		case "put", "putmany":
			e, pv := c12Put(store, op)
			if pv != nil {
				return viol("session/panic/put", "put panicked in the interrupted session: %v", pv)
			}
			if (e != nil) != errs0[pi] {
				return viol("resume/put-outcome-differs/"+op.Kind, "op #%d %s%v: error=%v in the interrupted session but error=%v uninterrupted", i, op.Kind, op.Blks, e, errs0[pi])
			}
			pi++
			fp = append(fp, "p")
		case "restart_clean", "restart_final":
			restarts++
			fp = append(fp, op.Kind[8:9])
			if op.Kind == "restart_final" {
				var ferr error
				if pv := safeCall(func() { ferr = store.Finalize() }); pv != nil {
					return viol("session/panic/finalize", "Finalize panicked: %v", pv)
				}
				if ferr != nil {
					return viol("session/finalize-failed/fault-free", "Finalize before a restart failed: %v", ferr)
				}
				st.Fault("restart-finalized", 1)
			} else {
				if pv := safeCall(func() { store.Discard() }); pv != nil {
					return viol("session/panic/discard", "Discard panicked: %v", pv)
				}
				st.Fault("restart-clean", 1)
			}
			var oerr error
			if pv := safeCall(func() { store, oerr = OpenStore(env, cfg) }); pv != nil {
				return viol("resume/panic/reopen", "reopen panicked: %v", pv)
			}
			sim.CurrentFS = env.FS
			if oerr != nil {
				return viol("resume/refused/matching", "reopening the same file with the same roots and options after %s (op #%d) failed: %v", op.Kind, i, oerr)
			}
		case "mismatch":
			kind := mismatchKinds[op.Arg%len(mismatchKinds)]
			mc, roots, ok := mismatchConfig(cfg, kind)
			if !ok {
				st.Inconclusive++
				return nil
			}
			// close the running instance first: by Finalize (odd) or Discard/abandon (even)
			if (op.Arg/len(mismatchKinds))%2 == 1 {
				var ferr error
				if pv := safeCall(func() { ferr = store.Finalize() }); pv != nil || ferr != nil {
					return viol("session/finalize-failed/fault-free", "Finalize before the mismatching reopen failed: %v %v", ferr, pv)
				}
				fp = append(fp, "F")
			} else {
				store.Discard()
				fp = append(fp, "D")
			}
			d := env.Disk()
			before := d.MustBytes()
			nlog := d.MutCount()
			var ms Store
			var oerr error
			if pv := safeCall(func() { ms, oerr = OpenStoreRoots(env, mc, roots) }); pv != nil {
				return viol("resume/panic/reopen", "mismatching reopen panicked: %v", pv)
			}
			sim.CurrentFS = env.FS
			st.Fault("reopen-mismatch:"+kind, 1)
			after := d.MustBytes()
			if oerr == nil {
				ms.Discard()
				return viol("resume/mismatch-accepted/"+kind, "reopening with a mismatch (%s) was accepted", kind)
			}
			if d.MutCount() != nlog || !bytes.Equal(before, after) {
				return viol("resume/mismatch-touched-file/"+kind, "a refused reopen (%s: %v) modified the file (%d log entries added, bytes equal=%v)", kind, oerr, d.MutCount()-nlog, bytes.Equal(before, after))
			}
			st.Mark("c12m", cfgKey(cfg), kind, strings.Join(fp, ""))
			return nil
		default:
			panic(&InfraError{"c12: unknown op " + op.Kind})
		}
	}
	var ferr error
	if pv := safeCall(func() { ferr = store.Finalize() }); pv != nil {
		return viol("session/panic/finalize", "final Finalize panicked: %v", pv)
	}
	if ferr != nil {
		return viol("session/finalize-failed/fault-free", "final Finalize failed: %v", ferr)
	}
	f1 := env.Disk().MustBytes()
	if !bytes.Equal(f0, f1) {
		d := 0
		for d < len(f0) && d < len(f1) && f0[d] == f1[d] {
			d++
		}
		locus := "payload"
		switch {
		case len(f0) != len(f1) && d >= min(len(f0), len(f1)):
			locus = "length"
		case d < RefPragmaSize:
			locus = "pragma"
		case d < RefPragmaSize+RefHeaderSize && !cfg.CarV1:
			locus = "header"
		}
		return viol("resume/not-byte-identical/"+locus, "interrupted session's final file differs from the uninterrupted one at byte %d (lengths %d vs %d) after %d restarts", d, len(f1), len(f0), restarts)
	}
	if restarts > 0 {
		st.Mark("c12", cfgKey(cfg), strings.Join(fp, ""))
	}
	st.Sample(map[string]any{"cfg": t.Cfg, "ops": t.Ops})
	return nil
}

func min(a, b int) int {
	if a < b {
		return a
	}
	return b
}

func c12Store(r *Rng) string { return Pick(r, []string{"rw", "sc"}) }

// GenC12 draws an interrupted session (2/3) or a mismatch case (1/3).
func GenC12(seed uint64, run int) *Trace {
	r := RunRng(seed, "C12", "session", run)
	cfg := GenConfig(r, c12Store(r))
	if cfg.Store == "rw" {
		cfg.SameHandle = r.Chance(1, 4)
	}
	t := &Trace{Prop: "C12", Engine: "session", Seed: seed, Run: run, Cfg: cfg}
	alpha := genAlphabet(r, r.Range(1, 6), r.Chance(1, 10))
	if r.Chance(1, 2500) {
		// a block that puts its section exactly at / just over the default 8 MiB section size limit
		alpha = append(alpha, BlkSpec{Kind: "raw", Seed: 77, Size: 8<<20 - 36 + r.Intn(2)})
	}
	if r.Chance(1, 15) {
		// a tiny archive (see GenC06)
		t.Cfg.Roots = []BlkSpec{}
		t.Cfg.StoreID = true
		t.Cfg.CarV1 = r.Chance(2, 3)
		t.Cfg.DataPad, t.Cfg.IndexPad, t.Cfg.MaxIdxCid = 0, 0, 0
		alpha = []BlkSpec{{Kind: "id", Seed: 1, Size: 0}, {Kind: "id", Seed: 2, Size: 1}, {Kind: "id", Seed: 3, Size: 2}, {Kind: "id", Seed: 4, Size: 3}}
	}
	n := r.Range(0, 8)
	mismatch := r.Chance(1, 3)
	if mismatch && r.Chance(1, 2) && len(t.Cfg.Roots) >= 1 {
		// make a duplicate root so that the dup-swap mismatch applies
		t.Cfg.Roots = append(t.Cfg.Roots, t.Cfg.Roots[0])
	}
	restart := func() {
		for r.Chance(2, 5) {
			if r.Bool() {
				t.Ops = append(t.Ops, Op{Kind: "restart_clean"})
			} else {
				t.Ops = append(t.Ops, Op{Kind: "restart_final"})
			}
		}
	}
	for i := 0; i < n; i++ {
		restart()
		if r.Chance(1, 4) {
			t.Ops = append(t.Ops, Op{Kind: "putmany", Blks: genBatch(r, t.Cfg, alpha, 3)})
		} else {
			t.Ops = append(t.Ops, Op{Kind: "put", Blks: []BlkSpec{Pick(r, alpha)}})
		}
	}
	restart()
	if mismatch {
		t.Ops = append(t.Ops, Op{Kind: "mismatch", Arg: r.Intn(2 * len(mismatchKinds))})
	}
	return t
}

// Exhaustive: n puts, per gap a sequence of 0..2 restarts of two kinds (7 choices per gap).
var c12ExhBlocks = []BlkSpec{{"raw", 1, 5}, {"cbor", 1, 5}, {"id", 2, 3}}

var gapChoices = [][]string{{}, {"restart_clean"}, {"restart_final"}, {"restart_clean", "restart_clean"}, {"restart_clean", "restart_final"}, {"restart_final", "restart_clean"}, {"restart_final", "restart_final"}}

func c12ExhConfigs() []Config {
	var out []Config
	for _, store := range []string{"rw", "sc"} {
		base := Config{Store: store, Roots: []BlkSpec{{"raw", 1, 5}}}
		out = append(out, base)
		c := base
		c.DataPad, c.IndexPad = 7, 9
		out = append(out, c)
		c = base
		c.CarV1 = true
		out = append(out, c)
		c = base
		c.StoreID, c.AllowDup, c.IndexCodec = true, true, CodecSorted
		out = append(out, c)
		c = base
		c.WholeCIDs = true
		c.Roots = []BlkSpec{}
		out = append(out, c)
	}
	return out
}

func pow(a, b int) int {
	p := 1
	for i := 0; i < b; i++ {
		p *= a
	}
	return p
}

func ExhC12Count(n int) int {
	total := 0
	for k := 0; k <= n; k++ {
		total += pow(7, k+1)
	}
	return total * len(c12ExhConfigs())
}

func ExhC12(idx, n int) *Trace {
	cfgs := c12ExhConfigs()
	per := 0
	for k := 0; k <= n; k++ {
		per += pow(7, k+1)
	}
	cfg := cfgs[idx/per]
	idx %= per
	for k := 0; k <= n; k++ {
		cnt := pow(7, k+1)
		if idx < cnt {
			t := &Trace{Prop: "C12", Engine: "session", Run: -1, Cfg: cfg, Extra: map[string]any{"exhaustive": true}}
			x := idx
			for g := 0; g <= k; g++ {
				for _, rk := range gapChoices[x%7] {
					t.Ops = append(t.Ops, Op{Kind: rk})
				}
				x /= 7
				if g < k {
					t.Ops = append(t.Ops, Op{Kind: "put", Blks: []BlkSpec{c12ExhBlocks[g%len(c12ExhBlocks)]}})
				}
			}
			return t
		}
		idx -= cnt
	}
	panic("ExhC12: out of range")
}

func init() {
	RegisterPlan("C12", func(tier string) *Plan {
		n := tierPick(tier, 2, 3)
		return &Plan{
			Prop: "C12", Level: "exploration", Engine: "session",
			Runs:   tierPick(tier, 150000, 6000000),
			Exh:    ExhC12Count(n),
			ExhGen: func(i int) *Trace { return ExhC12(i, n) },
			Budget: tierPick(tier, 50*time.Second, 12*time.Minute),
			Rule: "a writing session interrupted at operation boundaries by restarts (Discard/abandon + reopen, Finalize + reopen; 'restart' is a generated operation of the simulator) on blockstore.OpenReadWrite / storage.OpenReadableWritable over a simulated disk; oracle: after the final Finalize the disk bytes equal those of the uninterrupted session, every put's error-ness is the same; mismatch cases (roots-different, roots-extra, roots-missing, roots-dup-swap, roots-other-codec, data-pad, version; after Discard or after Finalize): reopen with one field changed must fail and leave bytes and mutation log untouched. " +
				"Exhaustive part: every placement of 0..2 restarts of either kind in every gap of an n-put session (n<=2 quick, n<=3 thorough) under 10 option sets; seeded part: random sessions to 8 puts. Non-trivial = at least one restart happened (or a mismatch reopen was attempted); distinct = distinct (options, put/restart string or mismatch kind)",
			Gen: GenC12, Exec: RunC12, Minimise: true,
			Assume: []string{"root order is not part of 'same roots' (CarHeader.Matches documents that order is ignored), so reordered roots are not generated as a mismatch"},
			Real:   realAll, Stub: stubDisk, Schedule: "single task",
			ExpectProbes: nil,
		}
	})
}

var _ = fmt.Sprint
