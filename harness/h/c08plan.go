package h

import (
	"encoding/json"
	"fmt"
	"os"
	"os/exec"
	"path/filepath"
	"time"
)

type procResult struct {
	rep *WorkerReport
	err error
	log string
}

func runProc(cmd *exec.Cmd, outp string) procResult {
	ob, err := cmd.CombinedOutput()
	res := procResult{log: string(ob)}
	if err != nil {
		res.err = err
		return res
	}
	b, err := os.ReadFile(outp)
	if err != nil {
		res.err = err
		return res
	}
	var r WorkerReport
	if err := json.Unmarshal(b, &r); err != nil {
		res.err = err
	}
	res.rep = &r
	return res
}

// c08Custom runs the scheduler workers (variant B test binary) and the race
// workers (variant C binary) side by side and merges their reports.
func c08Custom(p *Plan, prop, tier string, seed uint64) int {
	start := time.Now()
	scr := scratchDir()
	tmp := filepath.Join(scr, "tmp")
	os.MkdirAll(tmp, 0o755)
	n := workers()
	nrace := n / 4
	if nrace < 1 {
		nrace = 1
	}
	nsched := n - nrace
	if nsched < 1 {
		nsched = 1
	}
	schedBin := filepath.Join(scr, "schedw.test")
	raceBin := filepath.Join(scr, "harness.race")
	for _, b := range []string{schedBin, raceBin} {
		if _, err := os.Stat(b); err != nil {
			fmt.Fprintln(os.Stderr, "harness: missing binary", b)
			return 2
		}
	}
	results := make([]procResult, nsched+nrace)
	done := make(chan int, nsched+nrace)
	for i := 0; i < nsched; i++ {
		go func(i int) {
			outp := filepath.Join(tmp, fmt.Sprintf("s%d.json", i))
			args, _ := json.Marshal(map[string]any{"prop": prop, "tier": tier, "seed": seed, "shard": i, "nshard": nsched, "out": outp})
			cmd := exec.Command(schedBin, "-test.run", "^TestSchedWorker$", "-test.timeout", "6h", "-test.cpu", "1")
			cmd.Env = append(os.Environ(), "VERIF_SCHED_ARGS="+string(args))
			results[i] = runProc(cmd, outp)
			done <- i
		}(i)
	}
	for i := 0; i < nrace; i++ {
		go func(i int) {
			outp := filepath.Join(tmp, fmt.Sprintf("r%d.json", i))
			cmd := exec.Command(raceBin, "-raceworker", "-prop", prop, "-tier", tier, "-seed", fmt.Sprint(seed),
				"-shard", fmt.Sprint(i), "-nshard", fmt.Sprint(nrace), "-out", outp)
			cmd.Env = append(os.Environ(), "GORACE=halt_on_error=0 exitcode=0 log_path="+filepath.Join(tmp, "racelog"), "VERIF_RACE_LOG="+filepath.Join(tmp, "racelog"))
			results[nsched+i] = runProc(cmd, outp)
			done <- nsched + i
		}(i)
	}
	for i := 0; i < nsched+nrace; i++ {
		<-done
	}
	total := NewStats()
	var viols []*Trace
	knownAgg := map[string]*KnownHit{}
	for i, r := range results {
		if r.err != nil {
			fmt.Fprintf(os.Stderr, "harness: C08 worker %d failed: %v\n%s\n", i, r.err, r.log)
			return 2
		}
		total.Merge(r.rep.Stats)
		viols = append(viols, r.rep.Violations...)
		for _, k := range r.rep.KnownHits {
			if a := knownAgg[k.Sig]; a == nil {
				kk := k
				knownAgg[k.Sig] = &kk
			} else {
				a.Count += k.Count
			}
		}
	}
	total.Faults["schedule-choice"] = total.Probes["sched:real-choice"]
	return finish(p, prop, tier, seed, total, viols, knownAgg, time.Since(start))
}

func c08Replay(p *Plan, t *Trace, path string) int {
	scr := scratchDir()
	switch t.Engine {
	case "race":
		bin := filepath.Join(scr, "harness.race")
		cmd := exec.Command(bin, "-racereplay", path)
		tmp := filepath.Join(scr, "tmp")
		os.MkdirAll(tmp, 0o755)
		cmd.Env = append(os.Environ(), "GORACE=halt_on_error=0 exitcode=0 log_path="+filepath.Join(tmp, "racelog"), "VERIF_RACE_LOG="+filepath.Join(tmp, "racelog"))
		cmd.Stdout, cmd.Stderr = os.Stdout, os.Stderr
		if err := cmd.Run(); err != nil {
			if ee, ok := err.(*exec.ExitError); ok {
				return ee.ExitCode()
			}
			return 2
		}
		return 0
	default:
		bin := filepath.Join(scr, "schedw.test")
		args, _ := json.Marshal(map[string]any{"prop": "C08", "tier": "quick", "replay": path})
		cmd := exec.Command(bin, "-test.run", "^TestSchedWorker$", "-test.timeout", "1h", "-test.cpu", "1")
		cmd.Env = append(os.Environ(), "VERIF_SCHED_ARGS="+string(args))
		cmd.Stdout, cmd.Stderr = os.Stdout, os.Stderr
		if err := cmd.Run(); err != nil {
			if ee, ok := err.(*exec.ExitError); ok {
				return ee.ExitCode()
			}
			return 2
		}
		return 0
	}
}

// RaceReplayMain is the -racereplay entry point (variant C binary).
func RaceReplayMain(path string) int {
	t, err := LoadTrace(path)
	if err != nil {
		fmt.Fprintln(os.Stderr, "harness:", err)
		return 2
	}
	sig, what := RaceReplay(t)
	if sig == "" {
		fmt.Printf("replay: property=C08 trace=%s: no data race in 20 executions of the workload\n", path)
		return 0
	}
	fmt.Printf("VIOLATION property=C08 replay=%s\n  signature: %s\n  %s\n", path, sig, what)
	return 1
}

func init() {
	RegisterPlan("C08", func(tier string) *Plan {
		return &Plan{
			Prop: "C08", Level: "exploration", Engine: "sched",
			Rule: "2-16 simulated client tasks, each a scripted program of 1-6 operations (Put, PutMany, Has, Get, GetSize, AllKeysChan+drain, Roots, Finalize) on ONE shared blockstore.ReadWrite / storage.StorageCar / deferred writer over 2-5 colliding keys. Engine sched: the run executes in a testing/synctest bubble; every sync.Mutex/RWMutex operation of go-car (types substituted), every simulated disk/stream call and every client yield is a scheduling point where all tasks are parked and a seeded PRNG picks who runs (lock eligibility comes from the simulator's lock model); oracles: no panic, no deadlock, history (stamped with the global event counter) linearizable against the map+typestate model (porcupine), and the finalized file holds each acknowledged block exactly once. " +
				"Engine race: the same programs with real goroutines, real mutexes and files under the Go race detector (schedule: Go runtime - runtime monitoring, used only for the 'no data races' clause). " +
				"An evaluation is one scheduled run or one racing execution; non-trivial = at least two operations overlapped; distinct = distinct hash of the (task, yield site) pick sequence (sched) / distinct program shape (race)",
			Assume:   []string{"the RW lock model has no writer preference (a superset of Go's behaviours)", "channel hand-offs between a key-listing producer and its consumer are not scheduling points (the library's channel cannot be intercepted); both sides run until their next simulated yield", "race pass: absence of reports under the runtime's schedules is not absence of races"},
			Real:     realAll,
			Stub:     []string{"sched engine: mutexes (sim.Mutex/RWMutex under the seeded scheduler), disk/file system/stream (sim), goroutine scheduling (one task at a time, chosen by the PRNG)", "race engine: nothing stubbed (real sync, real temp files); sim types in pass-through"},
			Schedule: "sched: simulator (seeded PRNG, replayable pick list); race: go runtime",
			Custom:   c08Custom, ReplayFn: c08Replay,
			ExpectProbes: []string{"sched:ops-overlapped", "sched:task-ineligible-lock-held", "sched:put-inside-key-listing", "sched:finalize-overlapped", "race:programs"},
		}
	})
}
