package h

import (
	"bytes"
	"errors"
	"fmt"
	"github.com/ipld/go-ipld-prime/linking"
	cidlink "github.com/ipld/go-ipld-prime/linking/cid"
	"strings"
	"time"

	carv2 "github.com/ipld/go-car/v2"
	"github.com/ipld/go-car/v2/storage"
	"github.com/ipld/go-car/v2/storage/deferred"
	"verif/sim"
)

// C20: the deferred writer is lazy, then byte-identical to a direct writer.
// Trace: Cfg.Store = "stream" | "path"; ops onput(Arg=once) / has / put / close.

type cbEvent struct{ id, n int }

func RunC20(t *Trace, st *Stats) *Violation {
	prevFS := sim.CurrentFS
	defer func() { sim.CurrentFS = prevFS }()
	cfg := t.Cfg
	roots := cfg.RootCids()
	// targets: "stream" = plain io.Writer; "stream-wa" = a stream that also offers io.WriterAt (an
	// *os.File the caller opened), optionally asked for CARv2 with WriteAsCarV1(false); "path".
	streamWA := cfg.Store == "stream-wa"
	stream := cfg.Store == "stream"
	wantV2 := streamWA && t.Extra != nil && t.Extra["stream_v2"] == true
	opts := t.Cfg.Options()
	if stream || streamWA {
		cfg.CarV1 = !wantV2
		cfg.Store = "stream"
		if wantV2 {
			opts = append(opts, carv2.WriteAsCarV1(false))
		}
	}
	directOpts := cfg.Options()
	// the caller's option slice has spare capacity and is reused after the constructor returned
	callerOpts := make([]carv2.Option, 0, len(opts)+4)
	callerOpts = append(callerOpts, opts...)
	opts = callerOpts
	env := NewEnv() // deferred target
	sim.CurrentFS = env.FS
	sink := sim.NewSink()
	wadisk := sim.NewDisk("stream-with-writerat")
	var preexisting []byte
	if !stream && !streamWA && t.Extra != nil && t.Extra["preexisting"] == true {
		// the path already names a (longer) file when the writer is constructed
		preexisting = NewRng(4242).Bytes(5000)
		env.SetDisk(sim.FromBytes(env.Path, preexisting))
		env.FS.Creates = 0
	}
	// the context the writes are made with: a directly constructed writer does not look at it, so an
	// already cancelled one must make no difference to the deferred writer either
	c20ctx := bg
	if t.Extra != nil && t.Extra["cancelled_ctx"] == true {
		c20ctx = cancelledCtx()
	}
	var dw *deferred.DeferredCarWriter
	switch {
	case stream:
		dw = deferred.NewDeferredCarWriterForStream(sink, roots, opts...)
	case streamWA:
		dw = deferred.NewDeferredCarWriterForStream(sim.NewFile(wadisk), roots, opts...)
	default:
		dw = deferred.NewDeferredCarWriterForPath(env.Path, roots, opts...)
	}
	callerOpts = append(callerOpts, carv2.UseIndexPadding(7777), carv2.WriteAsCarV1(!cfg.CarV1)) // unrelated later use of the same slice
	if t.Extra != nil && t.Extra["reuse_args"] == true {
		// the caller goes on to use its roots and options slices for something else: the writer was given
		// their values, not the right to read them later
		for i := range roots {
			roots[i] = MakeBlock(BlkSpec{"raw", 9000 + uint64(i), 3}).Cid
		}
		for i := range opts {
			callerOpts[i] = carv2.UseDataPadding(1234)
		}
	}
	_ = callerOpts
	// direct twin, constructed at the first put
	var direct storage.WritableCar
	dsink := sim.NewSink()
	ddisk := sim.NewDisk("direct")
	directBytes := func() []byte {
		if stream {
			return dsink.Buf
		}
		return ddisk.MustBytes()
	}
	targetBytes := func() ([]byte, bool) {
		if stream {
			return sink.Buf, true
		}
		if streamWA {
			return wadisk.MustBytes(), true
		}
		d := env.Disk()
		if d == nil {
			return nil, false
		}
		return d.MustBytes(), true
	}
	type reg struct {
		id   int
		once bool
	}
	var regs []reg
	var duringPut []reg // listeners registered from inside a listener while the current Put runs
	var log []cbEvent
	nextID := 0
	started := false // a Put has been attempted on an open writer
	closed := false
	st.Evals++
	var fp []string
	for i, op := range t.Ops {
		st.Steps++
		fp = append(fp, op.Kind[:1])
		switch op.Kind {
		case "onput":
			id := nextID
			nextID++
			once := op.Arg%2 == 1
			nested := op.Arg >= 2 // a listener that registers another listener the first time it fires
			regs = append(regs, reg{id, once})
			fired := false
			cb := func(n int) {
				log = append(log, cbEvent{id, n})
				if nested && !fired {
					fired = true
					child := nextID
					nextID++
					duringPut = append(duringPut, reg{child, false})
					dw.OnPut(func(n int) { log = append(log, cbEvent{child, n}) }, false)
				}
			}
			if pv := safeCall(func() { dw.OnPut(cb, once) }); pv != nil {
				return viol("deferred/panic/onput", "OnPut panicked: %v", pv)
			}
		case "has":
			b := MakeBlock(op.Blks[0])
			var got bool
			var err error
			if pv := safeCall(func() { got, err = dw.Has(bg, b.Cid.KeyString()) }); pv != nil {
				return viol("deferred/panic/has", "Has panicked: %v", pv)
			}
			switch {
			case closed:
				if !errors.Is(err, storage.ErrClosed) {
					return viol("deferred/not-closed-error/has", "op #%d Has after Close returned (%v, %v), want ErrClosed", i, got, err)
				}
			case !started:
				if err != nil || got {
					return viol("deferred/has-before-put/has", "op #%d Has before any Put returned (%v, %v), want (false, nil)", i, got, err)
				}
			default:
				want, werr := direct.Has(bg, b.Cid.KeyString())
				if got != want || (err != nil) != (werr != nil) {
					return viol("deferred/differs-from-direct/has", "op #%d Has(%s) = (%v,%v), direct writer says (%v,%v)", i, b.Spec, got, err, want, werr)
				}
			}
		case "open_write":
			// the linksystem door: a block write is opened and written to but never committed - no Put
			b := MakeBlock(op.Blks[0])
			if pv := safeCall(func() {
				if w, _, err := dw.BlockWriteOpener()(linking.LinkContext{Ctx: bg}); err == nil {
					w.Write(b.Data)
				}
			}); pv != nil {
				return viol("deferred/panic/open-write", "BlockWriteOpener panicked: %v", pv)
			}
		case "put":
			b := MakeBlock(op.Blks[0])
			before := len(log)
			var err error
			var early string
			if pv := safeCall(func() {
				if op.Arg == 1 {
					// the same Put through the linksystem door: open a block write, write, commit
					w, commit, oerr := dw.BlockWriteOpener()(linking.LinkContext{Ctx: bg})
					if oerr != nil {
						err = oerr
						return
					}
					w.Write(b.Data)
					if !started && !closed {
						if (stream && sink.WriteCalls != 0) || (streamWA && wadisk.WriteCalls != 0) || (!stream && !streamWA && env.FS.Creates != 0) {
							early = "the output was opened when a block write was opened, before its commit (the Put)"
						}
						if len(log) != before {
							early = "Put callbacks fired when a block write was opened, before its commit (the Put)"
						}
					}
					err = commit(cidlink.Link{Cid: b.Cid})
					return
				}
				err = dw.Put(c20ctx, b.Cid.KeyString(), b.Data)
			}); pv != nil {
				return viol("deferred/panic/put", "Put panicked: %v", pv)
			}
			if early != "" {
				return viol("deferred/not-lazy/open-write", "op #%d: %s", i, early)
			}
			if closed {
				if !errors.Is(err, storage.ErrClosed) {
					return viol("deferred/not-closed-error/put", "op #%d Put after Close returned %v, want ErrClosed", i, err)
				}
				break
			}
			// callbacks: all registered so far, in registration order, with len(content)
			var want []cbEvent
			var keep []reg
			for _, r := range regs {
				want = append(want, cbEvent{r.id, len(b.Data)})
				if !r.once {
					keep = append(keep, r)
				}
			}
			regs = keep
			got := log[before:]
			// listeners registered while this Put ran: whether they already fire for this Put is not
			// specified (both accepted); from the next Put on they fire like any other
			if len(got) == len(want)+len(duringPut) {
				for _, r := range duringPut {
					want = append(want, cbEvent{r.id, len(b.Data)})
				}
			}
			regs = append(regs, duringPut...)
			duringPut = nil
			if len(got) != len(want) {
				return viol("deferred/callbacks/count", "op #%d Put invoked %d callbacks %v, want %d %v", i, len(got), got, len(want), want)
			}
			for k := range want {
				if got[k] != want[k] {
					return viol("deferred/callbacks/order-or-arg", "op #%d Put invoked callbacks %v, want %v", i, got, want)
				}
			}
			if !started {
				started = true
				var derr error
				if stream {
					direct, derr = storage.NewWritable(dsink, cfg.RootCids(), directOpts...)
				} else {
					direct, derr = storage.NewWritable(sim.NewFile(ddisk), cfg.RootCids(), directOpts...)
				}
				if derr != nil {
					panic(&InfraError{"direct writer: " + derr.Error()})
				}
			}
			werr := direct.Put(c20ctx, b.Cid.KeyString(), b.Data)
			if (err != nil) != (werr != nil) {
				return viol("deferred/differs-from-direct/put", "op #%d Put(%s) returned %v, direct writer returned %v", i, b.Spec, err, werr)
			}
		case "close":
			var err error
			if pv := safeCall(func() { err = dw.Close() }); pv != nil {
				return viol("deferred/panic/close", "Close panicked: %v", pv)
			}
			if closed {
				if !errors.Is(err, storage.ErrClosed) {
					return viol("deferred/not-closed-error/close", "op #%d second Close returned %v, want ErrClosed", i, err)
				}
				break
			}
			closed = true
			if err != nil {
				return viol("deferred/close-failed/fault-free", "op #%d Close failed: %v", i, err)
			}
			if started {
				if derr := direct.Finalize(); derr != nil {
					panic(&InfraError{"direct finalize: " + derr.Error()})
				}
			}
		default:
			panic(&InfraError{"c20: unknown op " + op.Kind})
		}
		// invariants after every step
		tb, exists := targetBytes()
		if !started {
			if (stream && sink.WriteCalls != 0) || (streamWA && wadisk.WriteCalls != 0) {
				return viol("deferred/not-lazy/stream-written", "after op #%d %s the stream has received %d writes although no Put happened yet", i, op.Kind, sink.WriteCalls+wadisk.WriteCalls)
			}
			if !stream && !streamWA && preexisting != nil {
				if d := env.Disk(); d == nil || d.WriteCalls != 0 || d.TruncCalls != 0 || !bytes.Equal(tb, preexisting) {
					return viol("deferred/not-lazy/file-touched", "after op #%d %s the file that was at the path before has been touched although no Put happened yet", i, op.Kind)
				}
				continue
			}
			if !stream && !streamWA && (exists || env.FS.Creates != 0) {
				return viol("deferred/not-lazy/file-created", "after op #%d %s the output file exists although no Put happened yet", i, op.Kind)
			}
			continue
		}
		if !exists {
			return viol("deferred/differs-from-direct/no-file", "after op #%d the output file does not exist although a Put happened", i)
		}
		if !bytes.Equal(tb, directBytes()) {
			return viol("deferred/differs-from-direct/bytes", "after op #%d %s the deferred writer's output (%d bytes) differs from the direct writer's (%d bytes)", i, op.Kind, len(tb), len(directBytes()))
		}
	}
	if started {
		st.Mark("c20", cfgKey(t.Cfg), strings.Join(fp, ""))
	}
	st.Probe("c20:target=" + t.Cfg.Store)
	st.Sample(map[string]any{"cfg": t.Cfg, "ops": t.Ops})
	return nil
}

func GenC20(seed uint64, run int) *Trace {
	r := RunRng(seed, "C20", "session", run)
	target := Pick(r, []string{"stream", "stream-wa", "path", "path"})
	cfg := GenConfig(r, target)
	t := &Trace{Prop: "C20", Engine: "session", Seed: seed, Run: run, Cfg: cfg}
	if target == "stream" || target == "stream-wa" {
		t.Cfg.CarV1 = false // the constructor forces CARv1 itself ...
		if target == "stream-wa" && r.Bool() {
			t.Extra = map[string]any{"stream_v2": true} // ... unless the caller overrides it on a stream that can WriteAt
		} else {
			t.Cfg.DataPad, t.Cfg.IndexPad = 0, 0
		}
	}
	alpha := genAlphabet(r, r.Range(1, 5), r.Chance(1, 10))
	n := r.Range(1, 14)
	for i := 0; i < n; i++ {
		switch v := r.Intn(100); {
		case v < 25:
			t.Ops = append(t.Ops, Op{Kind: "onput", Arg: Pick(r, []int{0, 1, 0, 1, 2})})
		case v < 45:
			t.Ops = append(t.Ops, Op{Kind: "has", Blks: []BlkSpec{Pick(r, alpha)}})
		case v < 80:
			t.Ops = append(t.Ops, Op{Kind: "put", Blks: []BlkSpec{Pick(r, alpha)}})
		case v < 85:
			t.Ops = append(t.Ops, Op{Kind: "put", Arg: 1, Blks: []BlkSpec{Pick(r, alpha)}}) // through BlockWriteOpener
		case v < 88:
			t.Ops = append(t.Ops, Op{Kind: "open_write", Blks: []BlkSpec{Pick(r, alpha)}})
		default:
			t.Ops = append(t.Ops, Op{Kind: "close"})
		}
	}
	if r.Chance(1, 8) {
		if t.Extra == nil {
			t.Extra = map[string]any{}
		}
		t.Extra["cancelled_ctx"] = true
	}
	if target == "path" && r.Chance(1, 5) {
		if t.Extra == nil {
			t.Extra = map[string]any{}
		}
		t.Extra["preexisting"] = true // the path names an existing, longer file
	}
	if r.Chance(1, 3) {
		if t.Extra == nil {
			t.Extra = map[string]any{}
		}
		t.Extra["reuse_args"] = true // the caller reuses its roots and options slices after the constructor returned
	}
	if r.Chance(3, 4) {
		t.Ops = append(t.Ops, Op{Kind: "close"})
	}
	return t
}

func init() {
	RegisterPlan("C20", func(tier string) *Plan {
		return &Plan{
			Prop: "C20", Level: "exploration", Engine: "session",
			Runs:   tierPick(tier, 300000, 15000000),
			Budget: tierPick(tier, 45*time.Second, 10*time.Minute),
			Rule: "histories of OnPut/Has/Put/Close (and calls after Close) on a deferred writer whose target is a simulated plain stream (call-logging sink), a stream that also offers io.WriterAt (optionally asked for CARv2), or a path in the simulated file system; after every step: zero stream writes and no file before the first Put attempt, afterwards target bytes equal a directly constructed storage.NewWritable fed the same puts; callback log per Put equals the registration-order model; ErrClosed after Close. " +
				"Non-trivial = at least one Put attempted; distinct = distinct (options, op string)",
			Gen: GenC20, Exec: RunC20, Minimise: true,
			Assume: []string{"a Put on an already closed writer is not required to fire callbacks", "storage.NewWritable is the 'directly constructed writer' of the statement"},
			Real:   realAll, Stub: []string{"output stream (sim.Sink)", "file system (sim.FS / sim.File substituted for os.OpenFile / os.File in storage/deferred)"}, Schedule: "single task",
			ExpectProbes: []string{"c20:target=stream", "c20:target=stream-wa", "c20:target=path"},
		}
	})
}

var _ = fmt.Sprint
