//go:build go1.25

package schedw

import (
	"bytes"
	"context"
	"errors"
	"fmt"
	"sort"
	"strings"
	"testing"
	"testing/synctest"
	"time"

	"github.com/anishathalye/porcupine"
	"github.com/ipfs/go-cid"
	"github.com/ipld/go-car/v2/storage"
	"github.com/ipld/go-car/v2/storage/deferred"
	"verif/harness/h"
	"verif/sim"
)

type opIn struct {
	Kind string
	Keys []int // key indices
}

type opOut struct {
	Err      bool
	NotFound bool
	Found    bool
	BytesOK  bool
	Mask     uint32
	Note     string
}

type histOp struct {
	client   int
	in       opIn
	out      opOut
	inv, ret int64
	panicV   any
}

const (
	closedBit = 1 << 31
	roBit     = 1 << 30 // FinalizeReadOnly done: reads work, writes fail, file frozen
	keyMask   = roBit - 1
)

func model(nkeys int) porcupine.Model {
	return porcupine.Model{
		Init: func() interface{} { return uint32(0) },
		Step: func(state, input, output interface{}) (bool, interface{}) {
			st := state.(uint32)
			in := input.(opIn)
			out := output.(opOut)
			closed := st&closedBit != 0
			ro := st&roBit != 0
			var bits uint32
			for _, k := range in.Keys {
				bits |= 1 << uint(k)
			}
			switch in.Kind {
			case "put", "putmany":
				if out.Err {
					return closed || ro, st
				}
				return !closed && !ro, st | bits
			case "has":
				if closed {
					return out.Err, st
				}
				return !out.Err && out.Found == (st&bits != 0), st
			case "get", "getsize":
				if closed {
					return out.Err && !out.NotFound, st
				}
				if st&bits != 0 {
					return !out.Err && out.BytesOK, st
				}
				return out.Err && out.NotFound, st
			case "keys":
				if closed {
					return out.Err, st
				}
				return !out.Err && out.Mask == st&keyMask, st
			case "roots":
				return closed || out.BytesOK, st
			case "finalize":
				if closed {
					return true, st
				}
				if ro {
					return true, st | closedBit // result unspecified after FinalizeReadOnly; it closes
				}
				return !out.Err, st | closedBit
			case "finalize_ro":
				if closed || ro {
					return true, st
				}
				return !out.Err, st | roBit
			case "close":
				if closed {
					return true, st
				}
				if ro {
					return !out.Err, st | closedBit
				}
				// Close before any finalization: unspecified; it either fails and changes nothing or closes
				if out.Err {
					return true, st
				}
				return true, st | closedBit
			case "discard":
				return true, st | closedBit
			}
			return false, st
		},
		DescribeOperation: func(input, output interface{}) string {
			return fmt.Sprintf("%+v -> %+v", input, output)
		},
	}
}

// target adapters -----------------------------------------------------------

type tgt interface {
	do(ctx context.Context, op h.Op, keyIdx map[string]int) opOut
	finalizeQuiet() error
	image() ([]byte, bool)
}

type storeTgt struct {
	st  h.Store
	env *h.Env
	cfg h.Config
}

func idxOf(keyIdx map[string]int, c cid.Cid) int { return keyIdx[string(c.Hash())] }

func (t *storeTgt) do(ctx context.Context, op h.Op, keyIdx map[string]int) (out opOut) {
	var b h.Blk
	if len(op.Blks) > 0 {
		b = h.MakeBlock(op.Blks[0])
	}
	switch op.Kind {
	case "put":
		out.Err = t.st.Put(b) != nil
	case "putmany":
		out.Err = t.st.PutMany(h.MakeBlocks(op.Blks)) != nil
	case "has":
		f, err := t.st.Has(b.Cid)
		out.Err, out.Found = err != nil, f
	case "get":
		d, err := t.st.Get(b.Cid)
		out.Err = err != nil
		out.NotFound = err != nil && h.IsNotFound(err)
		out.BytesOK = err == nil && bytes.Equal(d, b.Data)
		if err == nil && !out.BytesOK {
			out.Note = fmt.Sprintf("Get returned %d bytes, want %d", len(d), len(b.Data))
		}
	case "getsize":
		n, err := t.st.GetSize(b.Cid)
		out.Err = err != nil
		out.NotFound = err != nil && h.IsNotFound(err)
		out.BytesOK = err == nil && n == len(b.Data)
	case "keys":
		ks, err := t.st.Keys()
		out.Err = err != nil
		seen := map[int]int{}
		for _, k := range ks {
			i, ok := keyIdx[string(k.Hash())]
			if !ok {
				out.Note = "listed a key that is not in the alphabet: " + k.String()
				out.Mask |= 1 << 30
				continue
			}
			seen[i]++
			if seen[i] > 1 {
				out.Note = "key listed twice"
				out.Mask |= 1 << 29
			}
			out.Mask |= 1 << uint(i)
		}
	case "roots":
		rs, err := t.st.Roots()
		out.Err = err != nil
		want := t.cfg.RootCids()
		out.BytesOK = err == nil && len(rs) == len(want)
		for i := range want {
			if out.BytesOK && !rs[i].Equals(want[i]) {
				out.BytesOK = false
			}
		}
	case "finalize":
		out.Err = t.st.Finalize() != nil
	case "finalize_ro":
		out.Err = t.st.FinalizeReadOnly() != nil
	case "close":
		out.Err = t.st.Close() != nil
	case "discard":
		t.st.Discard()
	}
	return
}

func (t *storeTgt) finalizeQuiet() error { return t.st.Finalize() }
func (t *storeTgt) image() ([]byte, bool) {
	d := t.env.Disk()
	if d == nil {
		return nil, false
	}
	return d.MustBytes(), true
}

type dwTgt struct {
	w    *deferred.DeferredCarWriter
	sink *sim.Sink
	env  *h.Env
}

func (t *dwTgt) do(ctx context.Context, op h.Op, keyIdx map[string]int) (out opOut) {
	var b h.Blk
	if len(op.Blks) > 0 {
		b = h.MakeBlock(op.Blks[0])
	}
	switch op.Kind {
	case "put":
		out.Err = t.w.Put(bg, b.Cid.KeyString(), b.Data) != nil
	case "has":
		f, err := t.w.Has(bg, b.Cid.KeyString())
		out.Err, out.Found = err != nil, f
	case "finalize":
		out.Err = t.w.Close() != nil
	}
	return
}
func (t *dwTgt) finalizeQuiet() error {
	err := t.w.Close()
	if errors.Is(err, storage.ErrClosed) {
		return nil
	}
	return err
}
func (t *dwTgt) image() ([]byte, bool) {
	if t.sink != nil {
		return t.sink.Buf, len(t.sink.Buf) > 0
	}
	d := t.env.Disk()
	if d == nil {
		return nil, false
	}
	return d.MustBytes(), true
}

var bg = context.Background()

// LastLog is the schedule and history of the most recent run (replay/debug output).
var LastLog []string

// RunSched executes one scheduler trace inside a synctest bubble and judges it.
func RunSched(t *testing.T, tr *h.Trace, st *h.Stats) (v *h.Violation) {
	ss := tr.Sched
	cfg := tr.Cfg
	// key alphabet
	keyIdx := map[string]int{}
	var keyBlks, allBlks []h.Blk
	for _, prog := range ss.Clients {
		for _, op := range prog {
			for _, sp := range op.Blks {
				b := h.MakeBlock(sp)
				allBlks = append(allBlks, b)
				if _, ok := keyIdx[string(b.Cid.Hash())]; !ok {
					keyIdx[string(b.Cid.Hash())] = len(keyBlks)
					keyBlks = append(keyBlks, b)
				}
			}
		}
	}
	if len(keyBlks) > 28 {
		panic(&h.InfraError{Msg: "too many keys for the bitmask model"})
	}
	var hist []histOp
	var sched *Sched
	var target tgt
	var bubblePanic any
	maxSteps := ss.MaxSteps
	if maxSteps == 0 {
		maxSteps = 20000
	}
	st.Evals++
	func() {
		defer func() {
			if r := recover(); r != nil {
				bubblePanic = r
			}
		}()
		synctest.Test(t, func(t *testing.T) {
			env := h.NewEnv()
			sim.CurrentFS = env.FS
			defer func() { sim.CurrentFS = nil; sim.SetScheduler(nil) }()
			// construct the shared instance before the scheduled phase (single-threaded)
			switch ss.Target {
			case "rw", "sc":
				s, err := h.OpenStore(env, cfg)
				if err != nil {
					panic(&h.InfraError{Msg: "open: " + err.Error()})
				}
				sim.CurrentFS = env.FS
				target = &storeTgt{st: s, env: env, cfg: cfg}
			case "dw":
				if cfg.Store == "stream" {
					sink := sim.NewSink()
					target = &dwTgt{w: deferred.NewDeferredCarWriterForStream(sink, cfg.RootCids(), cfg.Options()...), sink: sink, env: env}
				} else {
					target = &dwTgt{w: deferred.NewDeferredCarWriterForPath(env.Path, cfg.RootCids(), cfg.Options()...), env: env}
				}
			default:
				panic(&h.InfraError{Msg: "unknown sched target " + ss.Target})
			}
			if dt, ok := target.(*dwTgt); ok {
				for i := 0; i < ss.Callbacks; i++ {
					dt.w.OnPut(func(int) { sim.Yield("client:callback") }, false)
				}
			}
			rng := h.NewRng(ss.PickSeed)
			sched = NewSched(rng, ss.Picks, len(ss.Picks) > 0, maxSteps)
			ctx, cancel := context.WithCancel(context.Background())
			defer cancel()
			perClient := make([][]histOp, len(ss.Clients))
			for ci, prog := range ss.Clients {
				ci, prog := ci, prog
				sched.Spawn(func() {
					for _, op := range prog {
						sched.Yield("client:op")
						if sched.Aborted() {
							return
						}
						ho := histOp{client: ci, in: opIn{Kind: op.Kind}}
						for _, sp := range op.Blks {
							ho.in.Keys = append(ho.in.Keys, idxOf(keyIdx, h.MakeBlock(sp).Cid))
						}
						ho.inv = sched.Tick()
						func() {
							defer func() {
								if r := recover(); r != nil {
									if ie, ok := r.(*h.InfraError); ok {
										panic(ie)
									}
									ho.panicV = r
								}
							}()
							ho.out = target.do(ctx, op, keyIdx)
						}()
						ho.ret = sched.Tick()
						perClient[ci] = append(perClient[ci], ho)
					}
				})
			}
			sim.SetScheduler(sched)
			sched.Run()
			if sched.Aborted() {
				// the tasks now run freely; the (aborted) scheduler stays installed so that their lock
				// operations remain no-ops instead of reaching real mutexes that were never locked
				cancel()
				synctest.Wait()
			}
			sim.SetScheduler(nil)
			synctest.Wait()
			for _, pc := range perClient {
				hist = append(hist, pc...)
			}
		})
	}()
	if bubblePanic != nil {
		if ie, ok := bubblePanic.(*h.InfraError); ok {
			panic(ie)
		}
		msg := fmt.Sprint(bubblePanic)
		if strings.Contains(msg, "deadlock") {
			return &h.Violation{Sig: "sched/deadlock/bubble", What: "all goroutines blocked: " + msg}
		}
		return &h.Violation{Sig: "sched/panic/bubble", What: "panic inside the simulation: " + msg}
	}
	st.Steps += int64(sched.Steps())
	for k, n := range sched.Probes {
		st.ProbeN("sched:"+k, int64(n))
	}
	tr.Sched.Picks = sched.Picks
	LastLog = nil
	for _, l := range sched.Log {
		LastLog = append(LastLog, fmt.Sprintf("%d:t%d@%s/%d", l.Step, l.Task, l.Site, l.Eligible))
	}
	for _, ho := range hist {
		LastLog = append(LastLog, fmt.Sprintf("c%d[%d,%d] %s%v -> %+v", ho.client, ho.inv, ho.ret, ho.in.Kind, ho.in.Keys, ho.out))
	}
	switch sched.Err {
	case "deadlock":
		return &h.Violation{Sig: "sched/deadlock/" + ss.Target, What: "no task can run while clients are unfinished: " + sched.ErrWhat}
	case "step-budget":
		st.Inconclusive++
		return nil
	case "replay-divergence":
		panic(&h.InfraError{Msg: "replay diverged (nondeterminism): " + sched.ErrWhat})
	}
	// panics in operations
	for _, ho := range hist {
		if ho.panicV != nil {
			return &h.Violation{Sig: "sched/panic/" + ho.in.Kind, What: fmt.Sprintf("client %d %s panicked: %v", ho.client, ho.in.Kind, ho.panicV)}
		}
		if ho.out.Note != "" {
			st.Probe("sched:anomaly-note")
		}
	}
	// overlap probes
	overl := false
	for i := range hist {
		for j := range hist {
			if i != j && hist[i].inv < hist[j].inv && hist[j].inv < hist[i].ret {
				overl = true
				if hist[i].in.Kind == "keys" && strings.HasPrefix(hist[j].in.Kind, "put") {
					st.Probe("sched:put-inside-key-listing")
				}
				if hist[i].in.Kind == "finalize" || hist[j].in.Kind == "finalize" {
					st.Probe("sched:finalize-overlapped")
				}
			}
		}
	}
	if overl {
		st.Probe("sched:ops-overlapped")
		st.Mark("c08", fmt.Sprint(sched.Hash()))
	}
	// linearizability (outside the bubble: real clock for the checker's timeout)
	ops := make([]porcupine.Operation, 0, len(hist))
	for _, ho := range hist {
		ops = append(ops, porcupine.Operation{ClientId: ho.client, Input: ho.in, Call: ho.inv, Output: ho.out, Return: ho.ret})
	}
	res := porcupine.CheckOperationsTimeout(model(len(keyBlks)), ops, 30*time.Second)
	switch res {
	case porcupine.Unknown:
		st.Inconclusive++
	case porcupine.Illegal:
		kinds := map[string]bool{}
		for _, ho := range hist {
			kinds[ho.in.Kind] = true
		}
		var ks []string
		for k := range kinds {
			ks = append(ks, k)
		}
		sort.Strings(ks)
		locus := ss.Target
		if kinds["keys"] {
			locus += "+keys"
		}
		var lines []string
		for _, ho := range hist {
			lines = append(lines, fmt.Sprintf("c%d[%d,%d] %s%v -> %+v", ho.client, ho.inv, ho.ret, ho.in.Kind, ho.in.Keys, ho.out))
		}
		return &h.Violation{Sig: "sched/non-linearizable/" + locus, What: "no sequential order respecting real time explains the history: " + strings.Join(lines, "; ")}
	}
	// end-of-run: with de-duplication on, the finalized file holds each acknowledged block exactly once
	if err := target.finalizeQuiet(); err != nil && !strings.Contains(err.Error(), "closed") && !strings.Contains(err.Error(), "finalized") {
		return &h.Violation{Sig: "sched/finalize-failed/" + ss.Target, What: "Finalize after the concurrent phase failed: " + err.Error()}
	}
	for _, ho := range hist {
		if ho.in.Kind == "discard" || ho.in.Kind == "close" {
			return nil // the file may legitimately be left unfinalized: no end-of-run image to judge
		}
	}
	img, exists := target.image()
	var acked []h.Blk
	seen := map[int]bool{}
	for _, ho := range hist {
		if strings.HasPrefix(ho.in.Kind, "put") && !ho.out.Err {
			for _, k := range ho.in.Keys {
				if !seen[k] {
					seen[k] = true
					acked = append(acked, keyBlks[k])
				}
			}
		}
	}
	if !exists {
		if len(acked) > 0 {
			return &h.Violation{Sig: "sched/final-file/missing", What: "no output exists although puts were acknowledged"}
		}
		return nil
	}
	fcfg := cfg
	if ss.Target == "dw" {
		fcfg.Store = "dw"
		if cfg.Store == "stream" {
			fcfg.CarV1 = true
		}
	}
	rep, fv := h.FinalSections("sched", fcfg, nil, allBlks, img)
	if fv != nil {
		fv.Sig = strings.Replace(fv.Sig, "sched/", "sched/final-file:", 1)
		return fv
	}
	// keys are multihashes (de-duplication is by multihash): exactly the acknowledged keys, once each
	cnt := map[int]int{}
	for _, s := range rep.Payload.Sections {
		k, ok := keyIdx[string(s.Cid.Hash())]
		if !ok || !seen[k] {
			return &h.Violation{Sig: "sched/final-file/phantom-section", What: fmt.Sprintf("the finalized file holds section %s whose Put was never acknowledged", s.Cid)}
		}
		cnt[k]++
		if cnt[k] > 1 {
			return &h.Violation{Sig: "sched/final-file/duplicate-section", What: fmt.Sprintf("with de-duplication on, the finalized file holds block %s more than once", s.Cid)}
		}
	}
	for _, b := range acked {
		if cnt[keyIdx[string(b.Cid.Hash())]] == 0 {
			return &h.Violation{Sig: "sched/final-file/missing-section", What: fmt.Sprintf("the finalized file lacks block %s although its Put was acknowledged", b.Spec)}
		}
	}
	return nil
}

// ShrinkSched offers reductions of the client programs to the minimiser.
func ShrinkSched(t *h.Trace, try func(*h.Trace) bool) *h.Trace {
	if t.Sched == nil {
		return nil
	}
	var best *h.Trace
	cur := t
	attempt := func(c *h.Trace) bool {
		c.Sched.Picks = nil // schedule is re-drawn from PickSeed
		if try(c) {
			cur, best = c, c
			return true
		}
		return false
	}
	for ci := 0; ci < len(cur.Sched.Clients) && len(cur.Sched.Clients) > 1; {
		c := cur.Clone()
		c.Sched.Clients = append(append([][]h.Op{}, cur.Sched.Clients[:ci]...), cur.Sched.Clients[ci+1:]...)
		if !attempt(c) {
			ci++
		}
	}
	for ci := range cur.Sched.Clients {
		for oi := 0; oi < len(cur.Sched.Clients[ci]); {
			c := cur.Clone()
			c.Sched.Clients[ci] = append(append([]h.Op{}, cur.Sched.Clients[ci][:oi]...), cur.Sched.Clients[ci][oi+1:]...)
			if !attempt(c) {
				oi++
			}
		}
	}
	return best
}
