//go:build go1.25

package schedw

import (
	"encoding/json"
	"fmt"
	"os"
	"testing"
	"time"

	"verif/harness/h"
)

type workerArgs struct {
	Prop   string `json:"prop"`
	Tier   string `json:"tier"`
	Seed   uint64 `json:"seed"`
	Shard  int    `json:"shard"`
	NShard int    `json:"nshard"`
	Out    string `json:"out"`
	Replay string `json:"replay"`
	Dump   bool   `json:"dump"` // print the schedule log of a replay (determinism self-test)
}

// TestSchedWorker is the entry point of the scheduler worker process. It does
// nothing unless VERIF_SCHED_ARGS is set.
func TestSchedWorker(t *testing.T) {
	raw := os.Getenv("VERIF_SCHED_ARGS")
	if raw == "" {
		t.Skip("not invoked by the harness")
	}
	var a workerArgs
	if err := json.Unmarshal([]byte(raw), &a); err != nil {
		fmt.Fprintln(os.Stderr, "schedw: bad args:", err)
		os.Exit(2)
	}
	defer func() {
		if r := recover(); r != nil {
			if ie, ok := r.(*h.InfraError); ok {
				fmt.Fprintln(os.Stderr, "schedw:", ie.Error())
				os.Exit(2)
			}
			panic(r)
		}
	}()
	p := SchedPlan(t, a.Tier)
	if a.Replay != "" {
		tr, err := h.LoadTrace(a.Replay)
		if err != nil {
			fmt.Fprintln(os.Stderr, "schedw:", err)
			os.Exit(2)
		}
		st := h.NewStats()
		v := p.Exec(tr, st)
		if a.Dump {
			b, _ := json.Marshal(map[string]any{"picks": tr.Sched.Picks, "steps": st.Steps, "violation": v, "log": LastLog})
			fmt.Println("SCHEDLOG " + string(b))
		}
		if v == nil {
			fmt.Printf("replay: property=C08 trace=%s: no violation\n", a.Replay)
			os.Exit(0)
		}
		fmt.Printf("VIOLATION property=C08 replay=%s\n  signature: %s\n  %s\n", a.Replay, v.Sig, v.What)
		os.Exit(1)
	}
	os.Exit(h.WorkerLoop(p, "C08", a.Seed, a.Shard, a.NShard, a.Out))
}

// SchedPlan is the plan the scheduler worker executes.
func SchedPlan(t *testing.T, tier string) *h.Plan {
	quick := tier != "thorough"
	p := &h.Plan{
		Prop: "C08", Level: "exploration", Engine: "sched",
		Runs:        pick(quick, 80000, 20000000),
		Budget:      pick(quick, 25*time.Second, 12*time.Minute),
		Gen:         h.GenC08,
		Minimise:    true,
		ExtraShrink: ShrinkSched,
	}
	p.Exec = func(tr *h.Trace, st *h.Stats) *h.Violation { return RunSched(t, tr, st) }
	return p
}

func pick[T any](q bool, a, b T) T {
	if q {
		return a
	}
	return b
}
