//go:build go1.25

// Package schedw is the scheduler engine of C08. It is compiled only with the
// newer toolchain (testing/synctest) and only as a test binary, because
// synctest.Test needs a *testing.T.
package schedw

import (
	"bytes"
	"fmt"
	"runtime"
	"strconv"
	"sync"
	"testing/synctest"

	"verif/harness/h"
	"verif/sim"
)

type lockReq struct {
	m       *sim.LockState
	write   bool
	arrival int // order in which requests were made (writer preference is by arrival)
}

type task struct {
	id     int
	gid    uint64
	resume chan struct{}
	parked bool
	done   bool
	client bool
	req    *lockReq
	site   string
}

// Pick is one scheduling decision.
type Pick struct {
	Step     int
	Task     int
	Site     string
	Eligible int
}

// Sched decides which parked task runs next. Exactly one decision source: the
// run's PRNG (or a recorded pick list on replay).
type Sched struct {
	mu       sync.Mutex
	tasks    []*task
	byGid    map[uint64]*task
	rng      *h.Rng
	replay   []int
	useRep   bool
	Picks    []int
	Log      []Pick
	steps    int
	maxSteps int
	clock    int64
	nextLock int
	arrivals int
	aborted  bool
	Err      string // "deadlock" | "step-budget" | "replay-divergence"
	ErrWhat  string
	Probes   map[string]int
	hash     uint64
}

func NewSched(rng *h.Rng, replay []int, useReplay bool, maxSteps int) *Sched {
	return &Sched{byGid: map[uint64]*task{}, rng: rng, replay: replay, useRep: useReplay, maxSteps: maxSteps, Probes: map[string]int{}, hash: 1469598103934665603}
}

func gid() uint64 {
	var buf [64]byte
	n := runtime.Stack(buf[:], false)
	// "goroutine 123 [running]:"
	b := buf[:n]
	b = bytes.TrimPrefix(b, []byte("goroutine "))
	i := bytes.IndexByte(b, ' ')
	id, _ := strconv.ParseUint(string(b[:i]), 10, 64)
	return id
}

// Tick returns the next value of the global event clock.
func (s *Sched) Tick() int64 {
	s.mu.Lock()
	defer s.mu.Unlock()
	s.clock++
	return s.clock
}

func (s *Sched) current() *task {
	g := gid()
	s.mu.Lock()
	defer s.mu.Unlock()
	t := s.byGid[g]
	if t == nil {
		// a goroutine the library started itself (AllKeysChan producers)
		t = &task{id: len(s.tasks), gid: g, resume: make(chan struct{})}
		s.tasks = append(s.tasks, t)
		s.byGid[g] = t
		s.Probes["library-goroutine-registered"]++
	}
	return t
}

func (s *Sched) park(req *lockReq, site string) {
	if s.aborted {
		return
	}
	t := s.current()
	s.mu.Lock()
	if req != nil {
		s.arrivals++
		req.arrival = s.arrivals
	}
	t.req, t.site, t.parked = req, site, true
	s.mu.Unlock()
	<-t.resume
}

// grantable models Go's sync.RWMutex: a writer needs the lock free; a reader needs no writer
// holding it AND no writer that asked for it earlier still waiting (a blocked Lock call excludes
// new readers - which is what makes recursive read locking deadlock).
func (s *Sched) grantable(r *lockReq) bool {
	if r == nil {
		return true
	}
	if r.write {
		return !r.m.Writer && r.m.Readers == 0
	}
	if r.m.Writer {
		return false
	}
	for _, o := range s.tasks {
		if o.parked && o.req != nil && o.req != r && o.req.m == r.m && o.req.write && o.req.arrival < r.arrival {
			return false
		}
	}
	return true
}

// sim.Scheduler
func (s *Sched) Acquire(m *sim.LockState, write bool, site string) {
	if s.aborted {
		return
	}
	s.mu.Lock()
	if m.ID == 0 {
		s.nextLock++
		m.ID = s.nextLock
	}
	s.mu.Unlock()
	s.park(&lockReq{m: m, write: write}, site)
}

func (s *Sched) Release(m *sim.LockState, write bool, site string) {
	if s.aborted {
		return
	}
	s.mu.Lock()
	if write {
		m.Writer = false
	} else if m.Readers > 0 {
		m.Readers--
	}
	s.mu.Unlock()
	s.park(nil, site)
}

func (s *Sched) Yield(site string) { s.park(nil, site) }

// Spawn starts a client task; it parks immediately and runs when first picked.
func (s *Sched) Spawn(f func()) {
	t := &task{id: len(s.tasks), resume: make(chan struct{}), client: true}
	s.mu.Lock()
	s.tasks = append(s.tasks, t)
	s.mu.Unlock()
	ready := make(chan struct{})
	go func() {
		t.gid = gid()
		s.mu.Lock()
		s.byGid[t.gid] = t
		t.parked, t.site = true, "client:start"
		s.mu.Unlock()
		close(ready)
		<-t.resume
		defer func() {
			s.mu.Lock()
			t.done = true
			s.mu.Unlock()
		}()
		f()
	}()
	<-ready
}

// Run is the scheduling loop; it returns when every client task is done or the run is aborted.
func (s *Sched) Run() {
	for {
		synctest.Wait() // every goroutine of the bubble is parked, blocked on a channel, or finished
		s.mu.Lock()
		left := 0
		for _, t := range s.tasks {
			if t.client && !t.done {
				left++
			}
		}
		if left == 0 {
			// let library goroutines that are still parked run to their end
			pending := false
			for _, t := range s.tasks {
				if t.parked {
					pending = true
				}
			}
			if !pending {
				s.mu.Unlock()
				return
			}
		}
		var elig []*task
		held := false
		for _, t := range s.tasks {
			if !t.parked {
				continue
			}
			if s.grantable(t.req) {
				elig = append(elig, t)
			} else {
				held = true
			}
		}
		if held {
			s.Probes["task-ineligible-lock-held"]++
		}
		if len(elig) == 0 {
			if left == 0 {
				s.mu.Unlock()
				return
			}
			s.Err = "deadlock"
			s.ErrWhat = s.waitPicture()
			s.mu.Unlock()
			s.abort()
			return
		}
		if s.steps >= s.maxSteps {
			s.Err = "step-budget"
			s.ErrWhat = fmt.Sprintf("no completion within %d scheduling steps", s.maxSteps)
			s.mu.Unlock()
			s.abort()
			return
		}
		var t *task
		if s.useRep {
			if s.steps >= len(s.replay) {
				// past the recorded prefix: lowest eligible id (deterministic)
				t = elig[0]
			} else {
				want := s.replay[s.steps]
				for _, e := range elig {
					if e.id == want {
						t = e
					}
				}
				if t == nil {
					s.Err = "replay-divergence"
					s.ErrWhat = fmt.Sprintf("step %d: recorded task %d is not eligible", s.steps, want)
					s.mu.Unlock()
					s.abort()
					return
				}
			}
		} else {
			t = elig[s.rng.Intn(len(elig))]
		}
		s.Picks = append(s.Picks, t.id)
		s.Log = append(s.Log, Pick{Step: s.steps, Task: t.id, Site: t.site, Eligible: len(elig)})
		for _, c := range []byte(t.site) {
			s.hash = (s.hash ^ uint64(c)) * 1099511628211
		}
		s.hash = (s.hash ^ uint64(t.id+1)) * 1099511628211
		s.steps++
		s.clock++
		if len(elig) > 1 {
			s.Probes["real-choice"]++
		}
		if t.req != nil {
			if t.req.write {
				t.req.m.Writer = true
				t.req.m.WriterTask = t.id
			} else {
				t.req.m.Readers++
			}
		}
		t.parked, t.req = false, nil
		s.mu.Unlock()
		t.resume <- struct{}{}
	}
}

func (s *Sched) waitPicture() string {
	out := ""
	for _, t := range s.tasks {
		if t.parked {
			w := "yield"
			if t.req != nil {
				w = fmt.Sprintf("lock#%d(write=%v; held: writer=%v by task %d, readers=%d)", t.req.m.ID, t.req.write, t.req.m.Writer, t.req.m.WriterTask, t.req.m.Readers)
			}
			out += fmt.Sprintf("[task %d at %s waits for %s] ", t.id, t.site, w)
		} else if !t.done {
			out += fmt.Sprintf("[task %d blocked outside the simulator (channel)] ", t.id)
		}
	}
	return out
}

// abort lets everything run freely to completion so that the bubble can end.
func (s *Sched) abort() {
	s.mu.Lock()
	s.aborted = true
	var ts []*task
	for _, t := range s.tasks {
		if t.parked {
			t.parked = false
			ts = append(ts, t)
		}
	}
	s.mu.Unlock()
	for _, t := range ts {
		t.resume <- struct{}{}
	}
}

func (s *Sched) Steps() int    { return s.steps }
func (s *Sched) Hash() uint64  { return s.hash }
func (s *Sched) Aborted() bool { return s.aborted }
