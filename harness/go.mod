module verif/harness

go 1.23.0
