// Package sim is the simulated environment of the go-car verification harness:
// a sparse in-memory disk with a mutation log and a write-fault plan, a tiny
// file system, file handles with the method set of *os.File that go-car uses,
// stream sources and sinks with adversarial delivery, and mutex types whose
// blocking behaviour is decided by an installed scheduler.
//
// Nothing in this package starts goroutines, reads a clock or iterates a map on
// a decision path.
package sim

import (
	"errors"
	"fmt"
	"io"
	"sort"
)

// ErrInjected is returned by every injected write fault.
var ErrInjected = errors.New("sim: injected I/O error")

const pageSize = 4096

// MutKind is the kind of a mutation-log entry.
type MutKind byte

const (
	MutWrite    MutKind = 'w'
	MutTruncate MutKind = 't'
	MutAck      MutKind = 'a' // the API call Op returned (no effect on bytes)
)

// Mutation is one entry of a disk's mutation log.
type Mutation struct {
	Kind MutKind
	Off  int64  // write: offset; truncate: new size
	Data []byte // write: the bytes that reached the disk
	Op   int    // index of the API call in progress (set by the harness)
}

// FaultKind selects what an injected write fault does.
type FaultKind byte

const (
	FaultFail  FaultKind = 'f' // (0, ErrInjected), nothing written
	FaultShort FaultKind = 's' // first N bytes written, (N, ErrInjected)
	FaultLate  FaultKind = 'l' // everything written, (len(p), ErrInjected): the error arrives with a full count
)

// Fault is a transient fault on one write call.
type Fault struct {
	Kind FaultKind
	N    int
	// Trunc: the outage that makes this write fail also makes the next Truncate fail (the roll-back
	// a writer attempts after a partial write goes to the same device).
	Trunc bool
}

// Disk is one simulated file's durable content.
type Disk struct {
	Name  string
	size  int64
	pages map[int64][]byte

	Log   []Mutation
	CurOp int

	// Faults is keyed by the 0-based index of the write call (Write or WriteAt).
	Faults     map[int]Fault
	WriteCalls int
	ReadCalls  int
	TruncCalls int
	FaultsHit  int
	// TruncFaultsHit counts Truncate calls failed by a Fault with Trunc set.
	TruncFaultsHit int
	failTrunc      bool
	NoLog          bool // do not record mutations (used for materialised crash images whose log is not needed)
	// EOFAtEnd makes a ReadAt that is satisfied in full and ends exactly at the end of the file
	// return io.EOF with the data, which io.ReaderAt allows (an *os.File does not do it; the
	// caller-supplied ReaderAt of the storage package may).
	EOFAtEnd bool
}

func NewDisk(name string) *Disk {
	return &Disk{Name: name, pages: map[int64][]byte{}}
}

func (d *Disk) Size() int64 { return d.size }

// Ack appends an ack marker for API call op.
func (d *Disk) Ack(op int) {
	if !d.NoLog {
		d.Log = append(d.Log, Mutation{Kind: MutAck, Op: op})
	}
}

// MutCount returns the number of log entries.
func (d *Disk) MutCount() int { return len(d.Log) }

func (d *Disk) rawWrite(p []byte, off int64) {
	end := off + int64(len(p))
	for len(p) > 0 {
		pg := off / pageSize
		po := int(off % pageSize)
		n := pageSize - po
		if n > len(p) {
			n = len(p)
		}
		buf := d.pages[pg]
		if buf == nil {
			buf = make([]byte, pageSize)
			d.pages[pg] = buf
		}
		copy(buf[po:po+n], p[:n])
		p = p[n:]
		off += int64(n)
	}
	if end > d.size {
		d.size = end
	}
}

func (d *Disk) rawTruncate(size int64) {
	if size < d.size {
		// drop whole pages past the end, zero the tail of the boundary page
		last := size / pageSize
		keys := make([]int64, 0, len(d.pages))
		for k := range d.pages {
			keys = append(keys, k)
		}
		sort.Slice(keys, func(i, j int) bool { return keys[i] < keys[j] })
		for _, k := range keys {
			if k > last || (k == last && size%pageSize == 0) {
				delete(d.pages, k)
			}
		}
		if buf := d.pages[last]; buf != nil {
			for i := int(size % pageSize); i < pageSize; i++ {
				buf[i] = 0
			}
		}
	}
	d.size = size
}

// ReadAt honours the io.ReaderAt contract.
func (d *Disk) ReadAt(p []byte, off int64) (int, error) {
	d.ReadCalls++
	if off < 0 {
		return 0, fmt.Errorf("sim: negative offset")
	}
	if off >= d.size {
		return 0, io.EOF
	}
	n := len(p)
	var err error
	if int64(n) > d.size-off {
		n = int(d.size - off)
		err = io.EOF
	} else if d.EOFAtEnd && int64(n) == d.size-off {
		err = io.EOF
	}
	rem := p[:n]
	o := off
	for len(rem) > 0 {
		pg := o / pageSize
		po := int(o % pageSize)
		c := pageSize - po
		if c > len(rem) {
			c = len(rem)
		}
		if buf := d.pages[pg]; buf != nil {
			copy(rem[:c], buf[po:po+c])
		} else {
			for i := 0; i < c; i++ {
				rem[i] = 0
			}
		}
		rem = rem[c:]
		o += int64(c)
	}
	return n, err
}

// WriteAt applies the fault plan, then writes.
func (d *Disk) WriteAt(p []byte, off int64) (int, error) {
	idx := d.WriteCalls
	d.WriteCalls++
	if off < 0 {
		return 0, fmt.Errorf("sim: negative offset")
	}
	if f, ok := d.Faults[idx]; ok {
		d.FaultsHit++
		if f.Trunc {
			d.failTrunc = true
		}
		switch f.Kind {
		case FaultFail:
			return 0, ErrInjected
		case FaultShort:
			n := f.N
			if n > len(p) {
				n = len(p)
			}
			if n > 0 {
				d.apply(p[:n], off)
			}
			return n, ErrInjected
		case FaultLate:
			d.apply(p, off)
			return len(p), ErrInjected
		}
	}
	d.apply(p, off)
	return len(p), nil
}

func (d *Disk) apply(p []byte, off int64) {
	if !d.NoLog {
		cp := make([]byte, len(p))
		copy(cp, p)
		d.Log = append(d.Log, Mutation{Kind: MutWrite, Off: off, Data: cp, Op: d.CurOp})
	}
	d.rawWrite(p, off)
}

func (d *Disk) Truncate(size int64) error {
	d.TruncCalls++
	if size < 0 {
		return fmt.Errorf("sim: negative truncate")
	}
	if d.failTrunc {
		d.failTrunc = false
		d.TruncFaultsHit++
		return ErrInjected
	}
	if !d.NoLog {
		d.Log = append(d.Log, Mutation{Kind: MutTruncate, Off: size, Op: d.CurOp})
	}
	d.rawTruncate(size)
	return nil
}

// Bytes returns the whole content; it refuses absurd sizes (a hostile Truncate
// can make the logical size huge while the disk stays sparse).
func (d *Disk) Bytes() ([]byte, error) {
	if d.size > 1<<28 {
		return nil, fmt.Errorf("sim: disk logical size %d too large to materialise", d.size)
	}
	out := make([]byte, d.size)
	sz := d.size
	rc := d.ReadCalls
	if sz > 0 {
		d.ReadAt(out, 0)
	}
	d.ReadCalls = rc
	return out, nil
}

// MustBytes is Bytes for callers that know the disk is small.
func (d *Disk) MustBytes() []byte {
	b, err := d.Bytes()
	if err != nil {
		panic(err)
	}
	return b
}

// Clone copies content only (no log, no faults).
func (d *Disk) Clone() *Disk {
	n := NewDisk(d.Name)
	n.size = d.size
	for k, v := range d.pages {
		cp := make([]byte, pageSize)
		copy(cp, v)
		n.pages[k] = cp
	}
	return n
}

// FromBytes makes a disk holding b.
func FromBytes(name string, b []byte) *Disk {
	d := NewDisk(name)
	d.rawWrite(b, 0)
	return d
}

// Image replays the first k byte-mutations (acks are skipped and not counted)
// of log onto a copy of base, plus the first j bytes of the next mutation when
// it is a write and j > 0. It returns the resulting disk (NoLog unset, empty log).
func Image(base *Disk, log []Mutation, k, j int) *Disk {
	var d *Disk
	if base != nil {
		d = base.Clone()
	} else {
		d = NewDisk("image")
	}
	cnt := 0
	for _, m := range log {
		if m.Kind == MutAck {
			continue
		}
		if cnt == k {
			if j > 0 && m.Kind == MutWrite {
				n := j
				if n > len(m.Data) {
					n = len(m.Data)
				}
				d.rawWrite(m.Data[:n], m.Off)
			}
			break
		}
		switch m.Kind {
		case MutWrite:
			d.rawWrite(m.Data, m.Off)
		case MutTruncate:
			d.rawTruncate(m.Off)
		}
		cnt++
	}
	return d
}
