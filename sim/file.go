package sim

import (
	"fmt"
	"io"
	"io/fs"
	"os"
	"time"
)

// FS is a path -> Disk table. One per run.
type FS struct {
	Disks map[string]*Disk
	Opens int
	// Removes counts files deleted by Remove.
	Removes int
	// Creates counts files brought into existence by OpenFile(O_CREATE).
	Creates int

	gone map[string]*Disk // removed paths
}

func NewFS() *FS { return &FS{Disks: map[string]*Disk{}} }

// Exists reports whether path exists.
func (f *FS) Exists(path string) bool { _, ok := f.Disks[path]; return ok }

// CurrentFS is the file system OpenFile resolves paths in. When nil, OpenFile
// passes through to the real os.OpenFile.
var CurrentFS *FS

// File has the method set of *os.File that go-car uses. It is backed either by
// a simulated Disk or (pass-through) by a real *os.File.
type File struct {
	d      *Disk
	real   *os.File
	pos    int64
	closed bool
	append bool
	// Closes counts Close calls (observed by oracles).
	Closes int
}

// NewFile returns a handle positioned at 0 on d.
func NewFile(d *Disk) *File { return &File{d: d} }

// Disk returns the backing simulated disk (nil in pass-through mode).
func (f *File) Disk() *Disk { return f.d }

// OpenFile mirrors os.OpenFile.
func OpenFile(name string, flag int, perm os.FileMode) (*File, error) {
	yield("fs:open")
	fsys := CurrentFS
	if fsys == nil {
		rf, err := os.OpenFile(name, flag, perm)
		if err != nil {
			return nil, err
		}
		return &File{real: rf}, nil
	}
	fsys.Opens++
	d, ok := fsys.Disks[name]
	if !ok {
		if flag&os.O_CREATE == 0 {
			return nil, &fs.PathError{Op: "open", Path: name, Err: fs.ErrNotExist}
		}
		if g, ok := fsys.gone[name]; ok {
			d = g
			delete(fsys.gone, name)
		} else {
			d = NewDisk(name)
		}
		fsys.Disks[name] = d
		fsys.Creates++
	} else if flag&os.O_EXCL != 0 && flag&os.O_CREATE != 0 {
		return nil, &fs.PathError{Op: "open", Path: name, Err: fs.ErrExist}
	}
	if flag&os.O_TRUNC != 0 && d.size != 0 {
		d.Truncate(0)
	}
	return &File{d: d, append: flag&os.O_APPEND != 0}, nil
}

// Remove mirrors os.Remove for the simulated file system.
func Remove(name string) error {
	yield("fs:remove")
	fsys := CurrentFS
	if fsys == nil {
		return os.Remove(name)
	}
	if _, ok := fsys.Disks[name]; !ok {
		return &fs.PathError{Op: "remove", Path: name, Err: fs.ErrNotExist}
	}
	// the disk object stands for the path: it keeps its fault plan, call counters and mutation log, and
	// comes back (empty) if the path is created again
	d := fsys.Disks[name]
	if d.size != 0 {
		d.Truncate(0)
	}
	if fsys.gone == nil {
		fsys.gone = map[string]*Disk{}
	}
	fsys.gone[name] = d
	delete(fsys.Disks, name)
	fsys.Removes++
	return nil
}

var errClosed = fmt.Errorf("sim: file already closed")

func (f *File) Name() string {
	if f.real != nil {
		return f.real.Name()
	}
	return f.d.Name
}

func (f *File) Read(p []byte) (int, error) {
	if f.real != nil {
		return f.real.Read(p)
	}
	yield("disk:read")
	if f.closed {
		return 0, errClosed
	}
	if len(p) == 0 {
		return 0, nil
	}
	n, err := f.d.ReadAt(p, f.pos)
	f.pos += int64(n)
	if n > 0 && err == io.EOF {
		err = nil
	}
	return n, err
}

func (f *File) ReadAt(p []byte, off int64) (int, error) {
	if f.real != nil {
		return f.real.ReadAt(p, off)
	}
	yield("disk:readat")
	if f.closed {
		return 0, errClosed
	}
	return f.d.ReadAt(p, off)
}

func (f *File) Write(p []byte) (int, error) {
	if f.real != nil {
		return f.real.Write(p)
	}
	yield("disk:write")
	if f.closed {
		return 0, errClosed
	}
	if f.append {
		f.pos = f.d.size
	}
	n, err := f.d.WriteAt(p, f.pos)
	f.pos += int64(n)
	return n, err
}

func (f *File) WriteAt(p []byte, off int64) (int, error) {
	if f.real != nil {
		return f.real.WriteAt(p, off)
	}
	yield("disk:writeat")
	if f.closed {
		return 0, errClosed
	}
	return f.d.WriteAt(p, off)
}

func (f *File) Seek(offset int64, whence int) (int64, error) {
	if f.real != nil {
		return f.real.Seek(offset, whence)
	}
	if f.closed {
		return 0, errClosed
	}
	var np int64
	switch whence {
	case io.SeekStart:
		np = offset
	case io.SeekCurrent:
		np = f.pos + offset
	case io.SeekEnd:
		np = f.d.size + offset
	default:
		return 0, fmt.Errorf("sim: bad whence")
	}
	if np < 0 {
		return 0, fmt.Errorf("sim: negative position")
	}
	f.pos = np
	return np, nil
}

func (f *File) Truncate(size int64) error {
	if f.real != nil {
		return f.real.Truncate(size)
	}
	yield("disk:truncate")
	if f.closed {
		return errClosed
	}
	return f.d.Truncate(size)
}

func (f *File) Sync() error {
	if f.real != nil {
		return f.real.Sync()
	}
	if f.closed {
		return errClosed
	}
	return nil
}

func (f *File) Close() error {
	if f.real != nil {
		return f.real.Close()
	}
	f.Closes++
	if f.closed {
		return errClosed
	}
	f.closed = true
	return nil
}

// Closed reports whether Close has been called on a simulated handle.
func (f *File) Closed() bool { return f.closed }

func (f *File) Stat() (os.FileInfo, error) {
	if f.real != nil {
		return f.real.Stat()
	}
	if f.closed {
		return nil, errClosed
	}
	return fileInfo{name: f.d.Name, size: f.d.size}, nil
}

type fileInfo struct {
	name string
	size int64
}

func (fi fileInfo) Name() string       { return fi.name }
func (fi fileInfo) Size() int64        { return fi.size }
func (fi fileInfo) Mode() fs.FileMode  { return 0o644 }
func (fi fileInfo) ModTime() time.Time { return time.Time{} }
func (fi fileInfo) IsDir() bool        { return false }
func (fi fileInfo) Sys() any           { return nil }

// FileNT is a File without Truncate: an io.ReaderAt + io.Writer + io.WriterAt only,
// like a caller-supplied buffer type that cannot shrink.
type FileNT struct{ f *File }

func NewFileNT(d *Disk) *FileNT { return &FileNT{f: NewFile(d)} }

func (n *FileNT) ReadAt(p []byte, off int64) (int, error)  { return n.f.ReadAt(p, off) }
func (n *FileNT) Write(p []byte) (int, error)              { return n.f.Write(p) }
func (n *FileNT) WriteAt(p []byte, off int64) (int, error) { return n.f.WriteAt(p, off) }
