package sim

import "sync"

// Scheduler decides who runs. When none is installed every primitive in this
// package behaves like its standard-library counterpart.
type Scheduler interface {
	// Acquire returns once the simulator has granted m to the caller.
	Acquire(m *LockState, write bool, site string)
	// Release gives m back; the simulator may park the caller afterwards.
	Release(m *LockState, write bool, site string)
	// Yield is a scheduling point with no lock semantics.
	Yield(site string)
}

// LockState is the simulator's model of one mutex.
type LockState struct {
	ID      int // assigned by the scheduler on first use (0 = unassigned)
	Writer  bool
	Readers int
	// Holder bookkeeping for diagnostics only.
	WriterTask int
}

var sched Scheduler

// SetScheduler installs (or with nil removes) the scheduler. It must only be
// called while no simulated lock is held.
func SetScheduler(s Scheduler) { sched = s }

// HasScheduler reports whether a scheduler is installed.
func HasScheduler() bool { return sched != nil }

func yield(site string) {
	if s := sched; s != nil {
		s.Yield(site)
	}
}

// Yield is an explicit scheduling point for harness client code.
func Yield(site string) { yield(site) }

// Mutex replaces sync.Mutex in the rewritten copy of go-car.
type Mutex struct {
	real sync.Mutex
	st   LockState
}

func (m *Mutex) Lock() {
	if s := sched; s != nil {
		s.Acquire(&m.st, true, "mutex.Lock")
		return
	}
	m.real.Lock()
}

func (m *Mutex) Unlock() {
	if s := sched; s != nil {
		s.Release(&m.st, true, "mutex.Unlock")
		return
	}
	m.real.Unlock()
}

func (m *Mutex) TryLock() bool {
	if sched != nil {
		panic("sim: TryLock under scheduler is not modelled")
	}
	return m.real.TryLock()
}

// RWMutex replaces sync.RWMutex in the rewritten copy of go-car.
type RWMutex struct {
	real sync.RWMutex
	st   LockState
}

func (m *RWMutex) Lock() {
	if s := sched; s != nil {
		s.Acquire(&m.st, true, "rw.Lock")
		return
	}
	m.real.Lock()
}

func (m *RWMutex) Unlock() {
	if s := sched; s != nil {
		s.Release(&m.st, true, "rw.Unlock")
		return
	}
	m.real.Unlock()
}

func (m *RWMutex) RLock() {
	if s := sched; s != nil {
		s.Acquire(&m.st, false, "rw.RLock")
		return
	}
	m.real.RLock()
}

func (m *RWMutex) RUnlock() {
	if s := sched; s != nil {
		s.Release(&m.st, false, "rw.RUnlock")
		return
	}
	m.real.RUnlock()
}

func (m *RWMutex) RLocker() sync.Locker { return (*rlocker)(m) }

type rlocker RWMutex

func (r *rlocker) Lock()   { (*RWMutex)(r).RLock() }
func (r *rlocker) Unlock() { (*RWMutex)(r).RUnlock() }
