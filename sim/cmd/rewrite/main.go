// Command rewrite substitutes environment-boundary types in a scratch copy of
// github.com/ipld/go-car/v2 so that the simulator owns them:
//
//	sync.Mutex / sync.RWMutex            -> sim.Mutex / sim.RWMutex   (every non-test file)
//	os.File / os.OpenFile / os.Remove    -> sim.File / sim.OpenFile / sim.Remove   (packages blockstore, storage/deferred)
//
// It never touches /repo: it is given the directory of a copy. Exit status 0 on
// success, 2 on any problem (the caller treats that as an infrastructure failure).
package main

import (
	"bytes"
	"fmt"
	"go/ast"
	"go/format"
	"go/parser"
	"go/token"
	"os"
	"path/filepath"
	"sort"
	"strconv"
	"strings"
)

const simPath = "verif/sim"

type counts struct{ mutex, osfile, openfile int }

func main() {
	if len(os.Args) != 2 {
		fmt.Fprintln(os.Stderr, "usage: rewrite <dir of v2 copy>")
		os.Exit(2)
	}
	root := os.Args[1]
	total := map[string]*counts{}
	var files []string
	err := filepath.Walk(root, func(p string, info os.FileInfo, err error) error {
		if err != nil {
			return err
		}
		if info.IsDir() {
			return nil
		}
		if strings.HasSuffix(p, ".go") && !strings.HasSuffix(p, "_test.go") {
			files = append(files, p)
		}
		return nil
	})
	if err != nil {
		fail(err)
	}
	sort.Strings(files)
	for _, p := range files {
		rel, _ := filepath.Rel(root, p)
		pkg := filepath.ToSlash(filepath.Dir(rel))
		if pkg == "verifbridge" {
			continue
		}
		osScope := pkg == "blockstore" || pkg == "storage/deferred"
		c, err := rewriteFile(p, osScope)
		if err != nil {
			fail(fmt.Errorf("%s: %w", rel, err))
		}
		t := total[pkg]
		if t == nil {
			t = &counts{}
			total[pkg] = t
		}
		t.mutex += c.mutex
		t.osfile += c.osfile
		t.openfile += c.openfile
	}
	pkgs := make([]string, 0, len(total))
	for k := range total {
		pkgs = append(pkgs, k)
	}
	sort.Strings(pkgs)
	for _, k := range pkgs {
		t := total[k]
		if t.mutex+t.osfile+t.openfile > 0 {
			fmt.Printf("rewrite: %-18s mutex=%d os.File=%d os.OpenFile=%d\n", k, t.mutex, t.osfile, t.openfile)
		}
	}
}

func fail(err error) {
	fmt.Fprintln(os.Stderr, "rewrite:", err)
	os.Exit(2)
}

func importName(f *ast.File, path string) (string, *ast.ImportSpec) {
	for _, im := range f.Imports {
		p, _ := strconv.Unquote(im.Path.Value)
		if p == path {
			if im.Name != nil {
				return im.Name.Name, im
			}
			return filepath.Base(path), im
		}
	}
	return "", nil
}

func rewriteFile(path string, osScope bool) (counts, error) {
	var c counts
	fset := token.NewFileSet()
	f, err := parser.ParseFile(fset, path, nil, parser.ParseComments)
	if err != nil {
		return c, err
	}
	syncName, _ := importName(f, "sync")
	osName, _ := importName(f, "os")
	if syncName == "" && (osName == "" || !osScope) {
		return c, nil
	}
	simName := "sim"
	ast.Inspect(f, func(n ast.Node) bool {
		sel, ok := n.(*ast.SelectorExpr)
		if !ok {
			return true
		}
		x, ok := sel.X.(*ast.Ident)
		if !ok || x.Obj != nil { // x.Obj != nil => a local object shadows the package name
			return true
		}
		switch {
		case syncName != "" && x.Name == syncName && (sel.Sel.Name == "Mutex" || sel.Sel.Name == "RWMutex"):
			x.Name = simName
			c.mutex++
		case osScope && osName != "" && x.Name == osName && sel.Sel.Name == "File":
			x.Name = simName
			c.osfile++
		case osScope && osName != "" && x.Name == osName && (sel.Sel.Name == "OpenFile" || sel.Sel.Name == "Remove"):
			x.Name = simName
			c.openfile++
		}
		return true
	})
	if c.mutex+c.osfile+c.openfile == 0 {
		return c, nil
	}
	// does anything still use the original packages?
	uses := func(name string) bool {
		found := false
		ast.Inspect(f, func(n ast.Node) bool {
			if sel, ok := n.(*ast.SelectorExpr); ok {
				if x, ok := sel.X.(*ast.Ident); ok && x.Obj == nil && x.Name == name {
					found = true
				}
			}
			return !found
		})
		return found
	}
	drop := map[string]bool{}
	if syncName != "" && !uses(syncName) {
		drop["sync"] = true
	}
	if osName != "" && !uses(osName) {
		drop["os"] = true
	}
	// rebuild import decls
	added := false
	for _, d := range f.Decls {
		gd, ok := d.(*ast.GenDecl)
		if !ok || gd.Tok != token.IMPORT {
			continue
		}
		var specs []ast.Spec
		for _, s := range gd.Specs {
			is := s.(*ast.ImportSpec)
			p, _ := strconv.Unquote(is.Path.Value)
			if drop[p] {
				continue
			}
			specs = append(specs, s)
		}
		if !added {
			specs = append(specs, &ast.ImportSpec{Path: &ast.BasicLit{Kind: token.STRING, Value: strconv.Quote(simPath)}})
			added = true
			if !gd.Lparen.IsValid() && len(specs) > 1 {
				gd.Lparen = gd.Pos()
				gd.Rparen = gd.End()
			}
		}
		gd.Specs = specs
	}
	if !added {
		return c, fmt.Errorf("no import declaration to extend")
	}
	// f.Imports is used by the printer only through Decls; keep it consistent anyway.
	var buf bytes.Buffer
	if err := format.Node(&buf, fset, f); err != nil {
		return c, err
	}
	return c, os.WriteFile(path, buf.Bytes(), 0o644)
}
