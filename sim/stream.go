package sim

import (
	"bufio"
	"errors"
	"fmt"
	"io"
)

// ErrMedium is the injected read error of a Source.
var ErrMedium = errors.New("sim: injected medium read error (EIO)")

// BudgetExceeded is panicked by a Source whose call budget is exhausted; the
// harness recovers it and reports non-termination.
type BudgetExceeded struct{ Calls int }

func (b BudgetExceeded) Error() string {
	return fmt.Sprintf("sim: source call budget exceeded after %d calls", b.Calls)
}

// Delivery says how a Source hands out its bytes through Read.
type Delivery struct {
	// Chunks is a cyclic list of maximum chunk sizes for successive Read calls;
	// 0 or an empty list means "as much as asked".
	Chunks []int `json:"chunks,omitempty"`
	// EOFWithData makes the Read that delivers the last byte return io.EOF
	// together with the data (legal per io.Reader).
	EOFWithData bool `json:"eof_with_data,omitempty"`
	// ErrAt >= 0 injects ErrMedium as soon as a Read or ReadAt touches that offset.
	ErrAt int64 `json:"err_at"`
	// StartPos is the Read position the source has when it is handed over (a caller that has
	// already read from it, e.g. to sniff the version). Meant for APIs that take an io.ReaderAt,
	// whose ReadAt neither depends on nor moves that position.
	StartPos int64 `json:"start_pos,omitempty"`
}

// Profiles of capability: which optional interfaces the handed-out value has.
const (
	ProfR    = "R"    // io.Reader
	ProfRB   = "RB"   // + io.ByteReader
	ProfRS   = "RS"   // io.ReadSeeker
	ProfRSB  = "RSB"  // + io.ByteReader
	ProfRSA  = "RSA"  // io.ReadSeeker + io.ReaderAt
	ProfRSAB = "RSAB" // + io.ByteReader
	ProfA    = "A"    // io.ReaderAt only
	// ProfPipe is an io.Reader that has a Seek method which always fails, like an *os.File that is a
	// pipe, a socket or a terminal (ESPIPE): a non-seekable source that looks like a Seeker.
	ProfPipe = "pipe"
	// ProfBufio is a *bufio.Reader (small buffer) over a plain reader: a stream that brings its own
	// ReadByte, Discard, Peek, UnreadByte and WriteTo, which is what callers wrap sockets and pipes in.
	ProfBufio = "bufio"
)

var AllProfiles = []string{ProfR, ProfRB, ProfRS, ProfRSB, ProfRSA, ProfRSAB, ProfA, ProfPipe, ProfBufio}

var errIllegalSeek = errors.New("sim: seek: illegal seek")

// SrcCore is the state shared by every profile wrapper.
type SrcCore struct {
	Data []byte
	Del  Delivery
	pos  int64
	ci   int

	Calls     int
	Budget    int   // 0 = unlimited
	HighWater int64 // one past the highest offset ever delivered
	SeekMax   int64
	ErrFired  int
}

func (c *SrcCore) tick() {
	c.Calls++
	if c.Budget > 0 && c.Calls > c.Budget {
		panic(BudgetExceeded{c.Calls})
	}
}

func (c *SrcCore) Pos() int64 { return c.pos }

func (c *SrcCore) read(p []byte) (int, error) {
	c.tick()
	if len(p) == 0 {
		return 0, nil
	}
	if c.pos >= int64(len(c.Data)) {
		return 0, io.EOF
	}
	n := len(p)
	if len(c.Del.Chunks) > 0 {
		k := c.Del.Chunks[c.ci%len(c.Del.Chunks)]
		c.ci++
		if k > 0 && k < n {
			n = k
		}
	}
	if int64(n) > int64(len(c.Data))-c.pos {
		n = int(int64(len(c.Data)) - c.pos)
	}
	if c.Del.ErrAt >= 0 && c.pos+int64(n) > c.Del.ErrAt {
		n = int(c.Del.ErrAt - c.pos)
		if n <= 0 {
			c.ErrFired++
			return 0, ErrMedium
		}
	}
	copy(p, c.Data[c.pos:c.pos+int64(n)])
	c.pos += int64(n)
	if c.pos > c.HighWater {
		c.HighWater = c.pos
	}
	if c.Del.EOFWithData && c.pos == int64(len(c.Data)) {
		return n, io.EOF
	}
	return n, nil
}

func (c *SrcCore) readByte() (byte, error) {
	var b [1]byte
	for {
		n, err := c.read(b[:])
		if n == 1 {
			return b[0], nil
		}
		if err != nil {
			return 0, err
		}
	}
}

func (c *SrcCore) seek(off int64, whence int) (int64, error) {
	c.tick()
	var np int64
	switch whence {
	case io.SeekStart:
		np = off
	case io.SeekCurrent:
		np = c.pos + off
	case io.SeekEnd:
		np = int64(len(c.Data)) + off
	default:
		return 0, errors.New("sim: bad whence")
	}
	if np < 0 {
		return 0, errors.New("sim: negative seek")
	}
	c.pos = np
	if np > c.SeekMax {
		c.SeekMax = np
	}
	return np, nil
}

func (c *SrcCore) readAt(p []byte, off int64) (int, error) {
	c.tick()
	if off < 0 {
		return 0, errors.New("sim: negative offset")
	}
	if off >= int64(len(c.Data)) {
		return 0, io.EOF
	}
	n := copy(p, c.Data[off:])
	if c.Del.ErrAt >= 0 && off <= c.Del.ErrAt && off+int64(n) > c.Del.ErrAt {
		c.ErrFired++
		return int(c.Del.ErrAt - off), ErrMedium
	}
	if off+int64(n) > c.HighWater {
		c.HighWater = off + int64(n)
	}
	if n < len(p) {
		return n, io.EOF
	}
	if c.Del.EOFWithData && off+int64(n) == int64(len(c.Data)) {
		// legal per io.ReaderAt: a full read that ends at the end of the input may report EOF
		return n, io.EOF
	}
	return n, nil
}

type SrcR struct{ C *SrcCore }
type SrcRB struct{ C *SrcCore }
type SrcRS struct{ C *SrcCore }
type SrcRSB struct{ C *SrcCore }
type SrcRSA struct{ C *SrcCore }
type SrcRSAB struct{ C *SrcCore }
type SrcA struct{ C *SrcCore }
type SrcPipe struct{ C *SrcCore }

func (s SrcPipe) Read(p []byte) (int, error) { return s.C.read(p) }
func (s SrcPipe) Seek(o int64, w int) (int64, error) {
	s.C.tick()
	return 0, errIllegalSeek
}

func (s SrcR) Read(p []byte) (int, error) { return s.C.read(p) }

func (s SrcRB) Read(p []byte) (int, error) { return s.C.read(p) }
func (s SrcRB) ReadByte() (byte, error)    { return s.C.readByte() }

func (s SrcRS) Read(p []byte) (int, error)         { return s.C.read(p) }
func (s SrcRS) Seek(o int64, w int) (int64, error) { return s.C.seek(o, w) }

func (s SrcRSB) Read(p []byte) (int, error)         { return s.C.read(p) }
func (s SrcRSB) Seek(o int64, w int) (int64, error) { return s.C.seek(o, w) }
func (s SrcRSB) ReadByte() (byte, error)            { return s.C.readByte() }

func (s SrcRSA) Read(p []byte) (int, error)            { return s.C.read(p) }
func (s SrcRSA) Seek(o int64, w int) (int64, error)    { return s.C.seek(o, w) }
func (s SrcRSA) ReadAt(p []byte, o int64) (int, error) { return s.C.readAt(p, o) }

func (s SrcRSAB) Read(p []byte) (int, error)            { return s.C.read(p) }
func (s SrcRSAB) Seek(o int64, w int) (int64, error)    { return s.C.seek(o, w) }
func (s SrcRSAB) ReadAt(p []byte, o int64) (int, error) { return s.C.readAt(p, o) }
func (s SrcRSAB) ReadByte() (byte, error)               { return s.C.readByte() }

func (s SrcA) ReadAt(p []byte, o int64) (int, error) { return s.C.readAt(p, o) }

// NewSource builds a source with the given capability profile.
func NewSource(data []byte, profile string, del Delivery) (any, *SrcCore) {
	c := &SrcCore{Data: data, Del: del}
	if del.StartPos > 0 {
		c.pos = min(del.StartPos, int64(len(data)))
	}
	switch profile {
	case ProfR:
		return SrcR{c}, c
	case ProfRB:
		return SrcRB{c}, c
	case ProfRS:
		return SrcRS{c}, c
	case ProfRSB:
		return SrcRSB{c}, c
	case ProfRSA:
		return SrcRSA{c}, c
	case ProfRSAB:
		return SrcRSAB{c}, c
	case ProfA:
		return SrcA{c}, c
	case ProfPipe:
		return SrcPipe{c}, c
	case ProfBufio:
		return bufio.NewReaderSize(SrcR{c}, 16), c
	}
	panic("sim: unknown profile " + profile)
}

// IsSeekable reports whether profile offers io.Seeker.
func IsSeekable(profile string) bool {
	switch profile {
	case ProfRS, ProfRSB, ProfRSA, ProfRSAB:
		return true
	}
	return false
}

// IsReader reports whether profile offers io.Reader.
func IsReader(profile string) bool { return profile != ProfA }

// HasReaderAt reports whether profile offers io.ReaderAt.
func HasReaderAt(profile string) bool {
	return profile == ProfRSA || profile == ProfRSAB || profile == ProfA
}

// SinkCall is one Write received by a Sink.
type SinkCall struct {
	Data []byte
	Op   int
}

// Sink is a plain io.Writer with a call log and a fault plan.
type Sink struct {
	Buf        []byte
	Calls      []SinkCall
	WriteCalls int
	Faults     map[int]Fault
	FaultsHit  int
	CurOp      int
}

func NewSink() *Sink { return &Sink{} }

func (s *Sink) Write(p []byte) (int, error) {
	yield("sink:write")
	idx := s.WriteCalls
	s.WriteCalls++
	if f, ok := s.Faults[idx]; ok {
		s.FaultsHit++
		switch f.Kind {
		case FaultFail:
			return 0, ErrInjected
		case FaultShort:
			n := f.N
			if n > len(p) {
				n = len(p)
			}
			if n > 0 {
				s.rec(p[:n])
			}
			return n, ErrInjected
		case FaultLate:
			s.rec(p)
			return len(p), ErrInjected
		}
	}
	s.rec(p)
	return len(p), nil
}

func (s *Sink) rec(p []byte) {
	cp := make([]byte, len(p))
	copy(cp, p)
	s.Calls = append(s.Calls, SinkCall{Data: cp, Op: s.CurOp})
	s.Buf = append(s.Buf, p...)
}
